#!/bin/bash
# Single entry point: run.sh check <Cxx> [quick|thorough] | replay <file> | selftest <name>
# Rebuilds the (tiny) orchestrator if its sources are newer than the binaries, then delegates.
set -uo pipefail
if [ "${1:-}" = "replay" ] && [ -n "${2:-}" ] && [ "${2#/}" = "$2" ]; then set -- replay "$PWD/$2"; fi
cd "$(dirname "$0")"
export GOFLAGS=-mod=mod GOPROXY=off GOSUMDB=off GOTOOLCHAIN=local CGO_ENABLED=0
export VERIF_ROOT="$(pwd)"
if [ ! -x bin/simctl ] || [ ! -x bin/instrument ] || [ -n "$(find sim -name '*.go' -newer bin/simctl 2>/dev/null | head -1)" ]; then
  ./setup.sh >/dev/null || { echo "MACHINERY-ERROR: setup failed" >&2; exit 2; }
fi
exec bin/simctl "$@"

#!/usr/bin/env python3
# Validates MANIFEST.json and evidence/*.json against the schemas in /root/.vp (tooling venv: python3-vt).
import json,sys,glob,jsonschema
m=json.load(open('/verif/MANIFEST.json'))
jsonschema.validate(m,json.load(open('/root/.vp/MANIFEST.schema.json')))
es=json.load(open('/root/.vp/EVIDENCE.schema.json'))
for c in m['checks']:
    try:
        jsonschema.validate(json.load(open(c['evidence_file'])),es); print('ok',c['evidence_file'])
    except FileNotFoundError: print('missing',c['evidence_file'])
ids=[json.loads(l)['id'] for l in open('/verif/properties.jsonl')]
claimed={c['property_id'] for c in m['checks']}; na={n['property_id'] for n in m.get('not_applicable',[])}
assert claimed|na==set(ids) and not claimed&na, (claimed,na)
print('manifest valid; claimed',sorted(claimed))

package main

import (
	"bufio"
	"bytes"
	"context"
	"encoding/json"
	"errors"
	"fmt"
	"os"
	"os/exec"
	"path/filepath"
	"runtime"
	"strings"
	"sync"
	"sync/atomic"
	"time"

	"verifsim/simrt"
)

// machineryError: something in the verification machinery itself failed
// (build, protocol, watchdog). Always exit status 2, never a VIOLATION.
type machineryError struct{ msg string }

func (e machineryError) Error() string { return e.msg }

func machinery(format string, a ...any) error { return machineryError{fmt.Sprintf(format, a...)} }

type InstrReport struct {
	Module      string         `json:"module"`
	Packages    []string       `json:"packages"`
	Files       int            `json:"files"`
	Sites       map[string]int `json:"sites"`
	SiteList    []string       `json:"site_list"`
	Unsimulated []string       `json:"unsimulated"`
	GoDirective string         `json:"go_directive"`
}

// Env is a prepared scratch copy of the repository under test: instrumented,
// with the worker and the instrumented command built.
type Env struct {
	Repo     string
	Verif    string
	Dir      string // scratch root (removed by Close)
	Harness  string
	Tsh      string // instrumented tsh
	TshReal  string // un-instrumented tsh (built on demand)
	Report   InstrReport
	Workers  int
	BuildS   float64
	Std      map[string][]byte // std/*.tsh of the working tree, by base name
	CoverDir string            // set when VERIF_COVER is given
	seq      atomic.Int64
	procs    atomic.Int64
}

func goEnv() []string {
	env := os.Environ()
	env = append(env, "GOFLAGS=-mod=mod", "GOPROXY=off", "GOSUMDB=off", "GOTOOLCHAIN=local", "CGO_ENABLED=0")
	return env
}

func verifRoot() string {
	if v := os.Getenv("VERIF_ROOT"); v != "" {
		return v
	}
	exe, err := os.Executable()
	if err == nil {
		d := filepath.Dir(filepath.Dir(exe)) // <root>/bin/simctl
		if _, err := os.Stat(filepath.Join(d, "sim", "simrt")); err == nil {
			return d
		}
	}
	return "/verif"
}

func repoRoot() string {
	if v := os.Getenv("VERIF_REPO"); v != "" {
		return v
	}
	return "/repo"
}

func run(dir string, env []string, name string, args ...string) (string, error) {
	cmd := exec.Command(name, args...)
	cmd.Dir = dir
	cmd.Env = env
	var out bytes.Buffer
	cmd.Stdout, cmd.Stderr = &out, &out
	err := cmd.Run()
	return out.String(), err
}

// NewEnv instruments the current working tree of the repository into a fresh
// scratch directory and builds the worker and the instrumented command.
func NewEnv() (*Env, error) {
	t0 := time.Now()
	e := &Env{Repo: repoRoot(), Verif: verifRoot(), Std: map[string][]byte{}}
	e.Workers = runtime.NumCPU()
	if e.Workers > 16 {
		e.Workers = 16
	}
	if v := os.Getenv("VERIF_WORKERS"); v != "" {
		fmt.Sscan(v, &e.Workers)
	}
	if e.Workers < 1 {
		e.Workers = 1
	}
	dir, err := os.MkdirTemp("", "verifsim-")
	if err != nil {
		return nil, machinery("mktemp: %v", err)
	}
	e.Dir = dir
	src := filepath.Join(dir, "src")
	os.MkdirAll(src, 0o755)
	os.MkdirAll(filepath.Join(dir, "io"), 0o755)
	instr := filepath.Join(e.Verif, "bin", "instrument")
	cmd := exec.Command(instr, "-src", e.Repo, "-dst", src, "-simrt", filepath.Join(e.Verif, "sim", "simrt"), "-harness", filepath.Join(e.Verif, "sim", "_harness"))
	var so, se bytes.Buffer
	cmd.Stdout, cmd.Stderr = &so, &se
	cmd.Env = goEnv()
	if err := cmd.Run(); err != nil {
		e.Close()
		return nil, machinery("instrumentation failed: %v: %s", err, strings.TrimSpace(se.String()))
	}
	if err := json.Unmarshal(so.Bytes(), &e.Report); err != nil {
		e.Close()
		return nil, machinery("instrumentation report: %v", err)
	}
	e.Harness = filepath.Join(dir, "simharness.bin")
	e.Tsh = filepath.Join(dir, "tsh_sim.bin")
	var wg sync.WaitGroup
	var err1, err2 error
	var out1, out2 string
	wg.Add(2)
	bargs := []string{"build"}
	if os.Getenv("VERIF_COVER") != "" {
		// development aid: statement coverage of the code under test reached by a check
		e.CoverDir = filepath.Join(dir, "cov")
		os.MkdirAll(e.CoverDir, 0o755)
		bargs = append(bargs, "-cover", "-coverpkg=./...")
	}
	go func() {
		defer wg.Done()
		out1, err1 = run(src, goEnv(), "go", append(append([]string{}, bargs...), "-o", e.Harness, "./simharness")...)
	}()
	go func() {
		defer wg.Done()
		out2, err2 = run(src, goEnv(), "go", append(append([]string{}, bargs...), "-o", e.Tsh, ".")...)
	}()
	wg.Wait()
	if err1 != nil {
		e.Close()
		return nil, machinery("building the worker from the instrumented copy failed: %v\n%s", err1, tail(out1, 2000))
	}
	if err2 != nil {
		e.Close()
		return nil, machinery("building the instrumented command failed: %v\n%s", err2, tail(out2, 2000))
	}
	if ents, err := os.ReadDir(filepath.Join(e.Repo, "std")); err == nil {
		for _, en := range ents {
			if strings.HasSuffix(en.Name(), ".tsh") {
				if b, err := os.ReadFile(filepath.Join(e.Repo, "std", en.Name())); err == nil {
					e.Std[en.Name()] = b
				}
			}
		}
	}
	e.BuildS = time.Since(t0).Seconds()
	return e, nil
}

// BuildReal builds the un-instrumented command from the working tree (used by
// the transparency self-test and by engine B).
func (e *Env) BuildReal() error {
	if e.TshReal != "" {
		return nil
	}
	out := filepath.Join(e.Dir, "tsh_real.bin")
	o, err := run(e.Repo, goEnv(), "go", "build", "-o", out, ".")
	if err != nil {
		return machinery("building the un-instrumented command failed: %v\n%s", err, tail(o, 2000))
	}
	e.TshReal = out
	return nil
}

func (e *Env) Close() {
	if e.CoverDir != "" {
		out := os.Getenv("VERIF_COVER")
		ents, _ := os.ReadDir(e.CoverDir)
		o, err := run(filepath.Join(e.Dir, "src"), goEnv(), "go", "tool", "covdata", "textfmt", "-i="+e.CoverDir, "-o="+out)
		fmt.Fprintln(os.Stderr, "coverage profile written to", out, len(ents), "data files", err, o)
	}
	if e.Dir != "" {
		os.RemoveAll(e.Dir)
	}
}

func tail(s string, n int) string {
	if len(s) > n {
		return "…" + s[len(s)-n:]
	}
	return s
}

const workerWatchdog = 300 * time.Second

// runWorker executes one plan in one fresh worker process.
// It returns the result lines, whether the worker ended properly, the index of
// the case that was in flight when it died (-1 if none) and its stderr.
func (e *Env) runWorker(plan *simrt.WorkerPlan) (res []simrt.CallResult, ended bool, inflight int, stderr string, err error) {
	id := e.seq.Add(1)
	pp := filepath.Join(e.Dir, "io", fmt.Sprintf("p%d.json", id))
	op := filepath.Join(e.Dir, "io", fmt.Sprintf("r%d.jsonl", id))
	defer os.Remove(pp)
	defer os.Remove(op)
	raw, err := json.Marshal(plan)
	if err != nil {
		return nil, false, -1, "", machinery("marshal plan: %v", err)
	}
	if err := os.WriteFile(pp, raw, 0o644); err != nil {
		return nil, false, -1, "", machinery("write plan: %v", err)
	}
	// the watchdog looks at PROGRESS: the worker flushes one line per finished call, and a plan
	// in which many calls run into their (deterministic) step budget legitimately takes long
	ctx, cancel := context.WithCancel(context.Background())
	defer cancel()
	stalled := false
	go func() {
		last, lastSize := time.Now(), int64(-1)
		start := time.Now()
		for {
			select {
			case <-ctx.Done():
				return
			case <-time.After(time.Second):
			}
			if fi, err := os.Stat(op); err == nil && fi.Size() != lastSize {
				last, lastSize = time.Now(), fi.Size()
			}
			if time.Since(last) > workerWatchdog || time.Since(start) > 12*workerWatchdog {
				stalled = true
				cancel()
				return
			}
		}
	}()
	cmd := exec.CommandContext(ctx, e.Harness, "-plan", pp, "-out", op)
	cmd.Env = []string{"GOMAXPROCS=" + gomaxprocsForWorker(), "GOTRACEBACK=single"}
	if e.CoverDir != "" {
		cmd.Env = append(cmd.Env, "GOCOVERDIR="+e.CoverDir)
	}
	var se bytes.Buffer
	cmd.Stderr = &limitedWriter{w: &se, n: 1 << 16}
	cmd.Stdout = nil
	e.procs.Add(1)
	runErr := cmd.Run()
	if stalled {
		return nil, false, -1, "", machinery("worker watchdog expired (no finished call for %v)", workerWatchdog)
	}
	if ee := (*exec.ExitError)(nil); runErr != nil && errors.As(runErr, &ee) && ee.ExitCode() == 97 {
		return nil, false, -1, "", machinery("worker protocol error: %s", se.String())
	}
	f, err := os.Open(op)
	if err != nil {
		return nil, false, -1, se.String(), machinery("worker produced no output: %v / %v / %s", err, runErr, tail(se.String(), 500))
	}
	defer f.Close()
	sc := bufio.NewScanner(f)
	sc.Buffer(make([]byte, 1<<20), 1<<28)
	inflight = -1
	for sc.Scan() {
		line := sc.Bytes()
		if bytes.HasPrefix(line, []byte(`{"begin":`)) {
			fmt.Sscanf(string(line), `{"begin":%d}`, &inflight)
			continue
		}
		if bytes.HasPrefix(line, []byte(`{"end":`)) {
			ended = true
			continue
		}
		var r simrt.CallResult
		if err := json.Unmarshal(line, &r); err != nil {
			return nil, false, -1, se.String(), machinery("bad worker output line: %v", err)
		}
		res = append(res, r)
		inflight = -1
	}
	return res, ended, inflight, se.String(), nil
}

var workerGOMAXPROCS = "2"

func gomaxprocsForWorker() string { return workerGOMAXPROCS }

type limitedWriter struct {
	w *bytes.Buffer
	n int
}

func (l *limitedWriter) Write(p []byte) (int, error) {
	if l.w.Len() < l.n {
		k := l.n - l.w.Len()
		if k > len(p) {
			k = len(p)
		}
		l.w.Write(p[:k])
	}
	return len(p), nil
}

func firstLines(s string, n int) string {
	lines := strings.Split(strings.TrimSpace(s), "\n")
	if len(lines) > n {
		lines = lines[:n]
	}
	return strings.Join(lines, "\n")
}

// RunCases executes cases (each on a fresh world) and returns one result per
// case, in order. A case that kills the worker yields Kind "fatal".
func (e *Env) RunCases(cases []simrt.Case) ([]simrt.CallResult, error) {
	const chunk = 48
	type job struct{ lo, hi int }
	jobs := []job{}
	for lo := 0; lo < len(cases); lo += chunk {
		hi := lo + chunk
		if hi > len(cases) {
			hi = len(cases)
		}
		jobs = append(jobs, job{lo, hi})
	}
	out := make([]simrt.CallResult, len(cases))
	var firstErr error
	var mu sync.Mutex
	parallel(len(jobs), e.Workers, func(j int) {
		lo, hi := jobs[j].lo, jobs[j].hi
		for lo < hi {
			res, ended, inflight, stderr, err := e.runWorker(&simrt.WorkerPlan{Mode: "cases", Cases: cases[lo:hi]})
			if err != nil {
				mu.Lock()
				if firstErr == nil {
					firstErr = err
				}
				mu.Unlock()
				return
			}
			copy(out[lo:], res)
			lo += len(res)
			if ended {
				if lo != hi {
					mu.Lock()
					if firstErr == nil {
						firstErr = machinery("worker returned %d results for %d cases", len(res), hi-lo+len(res))
					}
					mu.Unlock()
					return
				}
				break
			}
			// the worker died while running case `inflight` (relative index)
			if inflight < 0 || lo >= hi {
				mu.Lock()
				if firstErr == nil {
					firstErr = machinery("worker died outside a case: %s", tail(stderr, 500))
				}
				mu.Unlock()
				return
			}
			out[lo] = simrt.CallResult{ID: cases[lo].ID, Kind: "fatal", Err: firstLines(stderr, 3)}
			lo++
		}
	})
	return out, firstErr
}

// RunHistory executes one history in one fresh worker process.
func (e *Env) RunHistory(h *simrt.History) ([]simrt.CallResult, string, error) {
	res, ended, _, stderr, err := e.runWorker(&simrt.WorkerPlan{Mode: "history", History: h})
	if err != nil {
		return nil, "", err
	}
	if !ended {
		return res, firstLines(stderr, 3), nil
	}
	return res, "", nil
}

func parallel(n, workers int, f func(i int)) {
	if workers > n {
		workers = n
	}
	if workers <= 1 {
		for i := 0; i < n; i++ {
			f(i)
		}
		return
	}
	var next atomic.Int64
	var wg sync.WaitGroup
	for w := 0; w < workers; w++ {
		wg.Add(1)
		go func() {
			defer wg.Done()
			for {
				i := int(next.Add(1)) - 1
				if i >= n {
					return
				}
				f(i)
			}
		}()
	}
	wg.Wait()
}

// ---------------------------------------------------------------- tsh_sim

type TshResult struct {
	Exit     int
	Signal   string
	Stderr   string
	Journal  []simrt.TraceEv
	AtExit   map[string]any
	HasAtExit bool
}

// RunTsh runs the instrumented command once, as its own OS process.
func (e *Env) RunTsh(spec *simrt.WorldSpec, bin string) (*TshResult, error) {
	id := e.seq.Add(1)
	pp := filepath.Join(e.Dir, "io", fmt.Sprintf("t%d.json", id))
	jp := filepath.Join(e.Dir, "io", fmt.Sprintf("j%d.jsonl", id))
	defer os.Remove(pp)
	defer os.Remove(jp)
	raw, err := json.Marshal(spec)
	if err != nil {
		return nil, machinery("marshal: %v", err)
	}
	if err := os.WriteFile(pp, raw, 0o644); err != nil {
		return nil, machinery("write: %v", err)
	}
	wd := 60 * time.Second
	if len(spec.Args) > 100 {
		wd = 300 * time.Second // (an invocation that names a target some hundred times transpiles some hundred times)
	}
	ctx, cancel := context.WithTimeout(context.Background(), wd)
	defer cancel()
	if bin == "" {
		bin = e.Tsh
	}
	cmd := exec.CommandContext(ctx, bin)
	cmd.Env = []string{"SIMRT_PLAN=" + pp, "SIMRT_OUT=" + jp, "GOMAXPROCS=2", "GOTRACEBACK=single"}
	if e.CoverDir != "" {
		cmd.Env = append(cmd.Env, "GOCOVERDIR="+e.CoverDir)
	}
	cmd.Dir = filepath.Join(e.Dir, "io")
	var se bytes.Buffer
	cmd.Stderr = &limitedWriter{w: &se, n: 1 << 14}
	if spec.StdoutClosed {
		// standard output is the write end of a pipe nobody reads any more: a write to it is EPIPE,
		// which the Go runtime turns into SIGPIPE for descriptors 1 and 2
		pr, pw, perr := os.Pipe()
		if perr != nil {
			return nil, machinery("pipe: %v", perr)
		}
		pr.Close()
		cmd.Stdout = pw
		defer pw.Close()
	}
	e.procs.Add(1)
	runErr := cmd.Run()
	if ctx.Err() != nil {
		return nil, machinery("tsh_sim watchdog expired")
	}
	r := &TshResult{Stderr: se.String()}
	if runErr != nil {
		var ee *exec.ExitError
		if errors.As(runErr, &ee) {
			r.Exit = ee.ExitCode()
			if r.Exit < 0 {
				r.Signal = ee.String()
			}
		} else {
			return nil, machinery("cannot run tsh_sim: %v", runErr)
		}
	}
	if r.Exit == 97 {
		return nil, machinery("tsh_sim could not load its plan: %s", r.Stderr)
	}
	f, err := os.Open(jp)
	if err != nil {
		return nil, machinery("tsh_sim wrote no journal: %v (%s)", err, tail(r.Stderr, 300))
	}
	defer f.Close()
	sc := bufio.NewScanner(f)
	sc.Buffer(make([]byte, 1<<20), 1<<28)
	for sc.Scan() {
		line := sc.Bytes()
		if bytes.Contains(line, []byte(`"op":"atexit"`)) {
			json.Unmarshal(line, &r.AtExit)
			r.HasAtExit = true
			continue
		}
		var ev simrt.TraceEv
		if err := json.Unmarshal(line, &ev); err != nil {
			return nil, machinery("bad journal line: %v", err)
		}
		r.Journal = append(r.Journal, ev)
	}
	return r, nil
}

// SpawnsGoroutines reports whether the code under test contains a go statement: the order of
// its I/O calls is then not under the simulator's control (the seams are serialised, their
// order is the scheduler's), so traces of identical plans may differ while results may not.
func (e *Env) SpawnsGoroutines() bool {
	for _, u := range e.Report.Unsimulated {
		if strings.HasSuffix(u, "go statement") {
			return true
		}
	}
	return false
}

package main

import (
	"bytes"
	"context"
	"encoding/json"
	"fmt"
	"io/fs"
	"os"
	"os/exec"
	pathpkg "path"
	"path/filepath"
	"regexp"
	"sort"
	"strings"
	"syscall"
	"time"

	"verifsim/gen"
	"verifsim/simrt"
)

// C17 — write/read/exists behave as a line store. Engine B: a seeded history
// of operations is rendered to TypeShell, transpiled by the real transpiler
// (through the worker), the emitted script runs under the real /bin/bash in a
// private directory, and every observation plus the directory tree after each
// script is compared with an in-memory reference model.

type c17Op struct {
	Kind    string `json:"kind"`              // write | writeF | append | appendVar | read | exists | cut | ext-create | ext-delete | ext-mkdir
	Path    string `json:"path,omitempty"`    // relative to the private directory
	Content string `json:"content,omitempty"` // for writes and ext-create
	Render  string `json:"render,omitempty"`  // top | funcparam | funcglobal | if | for
	POrigin string `json:"p_origin,omitempty"` // literal | var | concat | runtime
	COrigin string `json:"c_origin,omitempty"`
	Flag    bool   `json:"flag,omitempty"` // value of the computed append flag (appendVar)
	Cond    int    `json:"cond,omitempty"` // appendVar: 1 + index into c17Conds of the expression that computes the flag (0: 1 < 2 resp. 2 < 1)
	Spell   string `json:"spell,omitempty"` // "" | dot (./p) | updown (sub/../p): another spelling of the same file
	ReadFrom string `json:"read_from,omitempty"` // c_origin "readof": the content is the inline expression read(<this file>), possibly the written file itself
	// Comp: read/exists whose result is consumed inside a larger expression, next to another operand
	// that reads or modifies a file: cat2 (read(a) + read(b)), eq2 (read(a) == read(b)), args2
	// (f(read(a), read(b))), thenmod (read(p) + g(p) resp. f(exists(p), g(p)) where g writes p:
	// operands are evaluated from left to right, so the builtin sees the state before g ran)
	Comp  string `json:"comp,omitempty"`
	Path2 string `json:"path2,omitempty"`
	Count int    `json:"count,omitempty"` // for/fordirect renderings of writes: the loop runs Count times (0 = once)
}

// c17Conds: boolean expressions with a known value, used as computed append flags.
type c17CondT struct {
	Expr string
	Val  bool
}

var c17Conds = func() []c17CondT {
	out := []c17CondT{}
	for _, ab := range [][2]int{{1, 2}, {2, 1}, {2, 2}, {0, 0}, {-1, 1}, {10, 9}} {
		a, b := ab[0], ab[1]
		vals := map[string]bool{"<": a < b, "<=": a <= b, ">": a > b, ">=": a >= b, "==": a == b, "!=": a != b}
		for _, op := range []string{"<", "<=", ">", ">=", "==", "!="} {
			e := fmt.Sprintf("%d %s %d", a, op, b)
			out = append(out, c17CondT{e, vals[op]}, c17CondT{"!(" + e + ")", !vals[op]}, c17CondT{"(" + e + ")", vals[op]})
		}
	}
	out = append(out, c17CondT{"!true", false}, c17CondT{"!false", true}, c17CondT{"true && false", false}, c17CondT{"true || false", true},
		c17CondT{"1 < 2 && 2 < 3", true}, c17CondT{"1 < 2 && 3 < 2", false}, c17CondT{"2 < 1 || 3 < 2", false}, c17CondT{"2 < 1 || 2 < 3", true},
		c17CondT{"!(1 < 2 && 2 < 3)", false}, c17CondT{"!(2 < 1 || 3 < 2)", true},
		c17CondT{"\"a\" == \"a\"", true}, c17CondT{"\"a\" != \"a\"", false}, c17CondT{"\"a\" == \"b\"", false}, c17CondT{"!(\"a\" == \"b\")", true},
		c17CondT{"len(\"ab\") == 2", true}, c17CondT{"len(\"ab\") > 2", false}, c17CondT{"exists(\".\")", true}, c17CondT{"!exists(\".\")", false},
		c17CondT{"exists(\"no-such-entry\")", false}, c17CondT{"1 + 1 == 2", true}, c17CondT{"2 * 3 < 6", false})
	return out
}()

// spelled returns the path as the program spells it; the model always uses Path.
func (o *c17Op) spelled() string {
	switch o.Spell {
	case "dot":
		return "./" + o.Path
	case "updown":
		return "sub/../" + o.Path
	case "slash": // exists only: a trailing slash demands a directory
		return o.Path + "/"
	case "slashdot":
		return o.Path + "/."
	case "ghost": // exists only: ".." after a directory that does not exist
		return "no-such-dir/../" + o.Path
	}
	return o.Path
}

type c17Hist struct {
	Ops        []c17Op `json:"ops"`
	Population string  `json:"population"` // base | extended
}

// ---------------------------------------------------------------- features

type c17Feature struct {
	Name string
	Has  func(s string) bool
	Fix  func(s string) string
}

var reEchoOpt = regexp.MustCompile(`^-[neE]+$`)

func replaceAny(s, chars, with string) string {
	return strings.Map(func(r rune) rune {
		if strings.ContainsRune(chars, r) {
			return []rune(with)[0]
		}
		return r
	}, s)
}

var c17CharFeatures = []c17Feature{
	{"blank", func(s string) bool { return strings.Contains(s, " ") }, func(s string) string { return strings.ReplaceAll(s, " ", "_") }},
	{"tab", func(s string) bool { return strings.Contains(s, "\t") }, func(s string) string { return strings.ReplaceAll(s, "\t", "_") }},
	{"newline", func(s string) bool { return strings.Contains(s, "\n") }, func(s string) string { return strings.ReplaceAll(s, "\n", "_") }},
	{"glob", func(s string) bool { return strings.ContainsAny(s, "*?[]") }, func(s string) string { return replaceAny(s, "*?[]", "x") }},
	{"meta", func(s string) bool { return strings.ContainsAny(s, ";&|<>()#~'!{}=%^,:@+") }, func(s string) string { return replaceAny(s, ";&|<>()#~'!{}=%^,:@+", "x") }},
	{"quote", func(s string) bool { return strings.ContainsAny(s, "\"$`\\") }, func(s string) string { return replaceAny(s, "\"$`\\", "x") }},
	{"trailnl", func(s string) bool { return strings.HasSuffix(s, "\n") }, func(s string) string { return strings.TrimRight(s, "\n") + "x" }},
	{"echoopt", func(s string) bool { return reEchoOpt.MatchString(s) }, func(s string) string { return "x" + s[1:] }},
	{"dash", func(s string) bool { return strings.HasPrefix(s, "-") && !reEchoOpt.MatchString(s) }, func(s string) string { return "x" + s[1:] }},
}

// features of a history: "P:<f>" for paths, "C:<f>" for contents, plus
// "literal" when a string with quote characters enters through a literal.
func (h *c17Hist) features() []string {
	set := map[string]bool{}
	for _, op := range h.Ops {
		for _, f := range c17CharFeatures {
			if op.Path != "" && f.Has(op.Path) {
				set["P:"+f.Name] = true
				if f.Name == "quote" && op.POrigin != "runtime" && op.Kind != "ext-create" && op.Kind != "ext-delete" && op.Kind != "ext-mkdir" {
					set["P:quote-in-literal"] = true
				}
			}
			if op.Content != "" && f.Has(op.Content) && op.Kind != "ext-create" {
				set["C:"+f.Name] = true
				if f.Name == "quote" && (op.COrigin != "runtime" || strings.HasSuffix(op.Content, "\n")) {
					set["C:quote-in-literal"] = true // (a run-time origin falls back to a variable for newline-terminated values)
				}
			}
			if op.Kind == "ext-create" && op.Content != "" && f.Has(op.Content) {
				set["X:"+f.Name] = true // external file content (reaches the program only through read)
			}
		}
	}
	return sortedKeys(set)
}

func (h *c17Hist) literalQuoteFeatures() []string {
	out := []string{}
	for _, f := range h.features() {
		if strings.HasSuffix(f, "quote-in-literal") {
			out = append(out, f)
		}
	}
	return out
}

// neutralise removes one feature from the whole history.
func (h *c17Hist) neutralise(feat string) *c17Hist {
	out := &c17Hist{Population: h.Population, Ops: append([]c17Op{}, h.Ops...)}
	role, name, _ := strings.Cut(feat, ":")
	if name == "quote-in-literal" {
		// keep the characters but bring them in at run time instead
		for i := range out.Ops {
			op := &out.Ops[i]
			if role == "P" && op.Path != "" && strings.ContainsAny(op.Path, "\"$`\\") && op.POrigin != "" {
				op.POrigin = "runtime"
			}
			if role == "C" && op.Content != "" && strings.ContainsAny(op.Content, "\"$`\\") && op.COrigin != "" {
				op.COrigin = "runtime"
			}
		}
		return out
	}
	for _, f := range c17CharFeatures {
		if f.Name != name {
			continue
		}
		for i := range out.Ops {
			op := &out.Ops[i]
			switch role {
			case "P":
				if op.Path != "" && f.Has(op.Path) {
					op.Path = f.Fix(op.Path)
				}
			case "C":
				if op.Kind != "ext-create" && op.Content != "" && f.Has(op.Content) {
					op.Content = f.Fix(op.Content)
				}
			case "X":
				if op.Kind == "ext-create" && op.Content != "" && f.Has(op.Content) {
					op.Content = f.Fix(op.Content)
				}
			}
		}
	}
	return out
}

// ---------------------------------------------------------------- generator

var c17NeutralPaths = []string{"a.txt", "data1", "out.log", "sub/f.txt", "notes", "b-2.cfg", "sub/deep.dat", "A_B.TXT",
	"a_rather_long_file_name_that_goes_on_and_on_for_more_than_sixty_four_bytes.txt"}
var c17ExtPaths = []string{"sp ace.txt", " lead", "trail ", "two  blanks", "-dash", "--", "-n", "st*r", "q?m", "br[a]ck", "a*", "semi;colon", "amp&er", "pipe|p", "lt<gt>",
	"par(en)", "hash#", "#hash", "~tilde", "quo'te", "dq\"uote", "$dollar", "$HOME", "back\\slash", "tick`t", "tab\there", "sub/sp ace", "excl!", "br{a,b}ce", "eq=ual", "per%cent", "$(id)", "new\nline", "out:~", "~", "a:~:b", "50%.txt", "100%", "a%%b", "%s.log",
	// names that are operators or options of the commands a script is likely to hand them to (test, [, cat, printf)
	"~/notes.txt", "~/x", "~user/x",
	"=", "==", "!=", "=~", "-nt", "-ot", "-ef", "-eq", "-a", "-o", "!", "(", ")", "<", ">", "-e", "-f", "-z", "-L", "-v", "[", "]", "-", "sub/=", "sub/-nt"}
var c17NeutralContents = []string{"Hello World", "Hello Moon", "abc", "42", "line one", "x", "The quick brown fox", "key=value", "a,b,c", "UPPER lower 123", "dots.and-dashes_ok", "path/like/value",
	// words that end or start something in a shell script when they stand alone on a line
	"EOF", "END", "EOT", "done", "fi", "exit",
	// longer than 64 bytes (a threshold a literal pool or a line wrapper might use)
	"The quick brown fox jumps over the lazy dog and keeps on running until the end of the line 0123456789",
	"configuration value that is rather long, 70 bytes or so, nothing special otherwise"}
var c17ExtContents = []string{"", "", "a\n", "two lines\nend\n", "\n", "one \ntwo", "x\t\ny", "a  \n  b", "end \n", " \n ", " lead", "trail ", "two  blanks", "   ", "tab\there", "\tlt", "a\nb", "a\n\nb", "*", "a*", "?", "[a]", "* *", ";", "a;b", "&", "a&&b", "|", "a|b", "<", ">", "a>b", "(", ")", "(x)",
	"#", "# not a comment", "~", "~root", "'", "it's", "\"", "say \"hi\"", "$", "$HOME", "${PATH}", "$(id)", "`id`", "`", "\\", "a\\nb", "\\\\", "C:\\dir", "-n", "-e", "-E", "-neE", "-x", "--", "- n", "-n x",
	"!", "!!", "{a,b}", "%s", "%d%%", "\\t", "$1", "$?", "a=b",
	"EOF\nafter", "before\nEOF\nafter", "_EOF_", "__END__", "HEREDOC", ".", "}", "esac\n;;", "done\nfi",
	// a tilde where an ASSIGNMENT expands it (after a colon, after the equals sign), brace and history forms
	"backup@server:~/data", "PATH=/usr/local/bin:~/bin", "out:~", "~/x", "a:~:b", "x=~", ":~+", "{1..3}", "a{b,c}d", "!$", "^a^b"}

func c17Gen(rng *gen.Rng, population string) *c17Hist {
	h := &c17Hist{Population: population}
	npaths := rng.Range(3, 5)
	paths := []string{}
	extP, extC := false, false
	if population == "extended" {
		switch rng.Intn(3) {
		case 0:
			extP = true
		case 1:
			extC = true
		default:
			extP, extC = true, true
		}
	}
	for len(paths) < npaths {
		p := rng.Pick(c17NeutralPaths)
		if extP && (len(paths) == 0 || rng.Chance(25)) {
			p = rng.Pick(c17ExtPaths)
		}
		dup := false
		for _, q := range paths {
			if q == p || strings.HasPrefix(p, q+"/") || strings.HasPrefix(q, p+"/") {
				dup = true // (also: a name cannot be a file and the directory of another path)
			}
		}
		if !dup {
			paths = append(paths, p)
		}
	}
	// a path whose name is derived from another path of the history (the names tools
	// pick for temporary, backup and lock files): writing one must not disturb the other
	if rng.Chance(35) && len(paths) > 0 {
		base := rng.Pick(paths)
		if !strings.HasPrefix(base, "sub/") || true {
			sib := base + rng.Pick([]string{".tmp", "~", ".bak", ".new", ".old", ".lock", ".swp", ".orig", ".1", ".tmp~"})
			if rng.Chance(15) && !strings.Contains(base, "/") {
				sib = "." + base + ".tmp"
			}
			paths = append(paths, sib)
		}
	}
	usedContents := []string{}
	largeUsed := !rng.Chance(5) // one history in twenty may contain one large value (each costs seconds)
	var content0 func() string
	content := func() string {
		// the very same text again (a pool of literals, a memo keyed by text …)
		if len(usedContents) > 0 && rng.Chance(18) {
			return usedContents[rng.Intn(len(usedContents))]
		}
		c := content0()
		if len(c) < 4096 {
			usedContents = append(usedContents, c)
		}
		return c
	}
	content0 = func() string {
		if extC && rng.Chance(7) {
			return "" // the empty string is the boundary value of every quoting and argument-passing scheme
		}
		if extC && rng.Chance(45) {
			c := rng.Pick(c17ExtContents)
			if rng.Chance(20) {
				c += rng.Pick(c17ExtContents) // two special contents glued together: the features meet
			}
			return c
		}
		c := rng.Pick(c17NeutralContents)
		if rng.Chance(4) {
			// a long line (2-6 KB)
			c = strings.Repeat("The quick brown fox jumps over the lazy dog 0123456789 ", rng.Range(40, 110))
			c = strings.TrimSpace(c)
		}
		if !largeUsed && rng.Chance(15) {
			// a large value (at most one per history): beyond 64 KiB, beyond the 128 KiB the kernel
			// allows for ONE argument or environment string (the lexer needs about 2 s for such a literal)
			largeUsed = true
			n := rng.Pick2([]int{66_000, 132_000, 132_000})
			c = strings.TrimSpace(strings.Repeat("The quick brown fox jumps over the lazy dog 0123456789 ", n/55+1)[:n])
		}
		if rng.Chance(30) {
			c += " " + fmt.Sprint(rng.Intn(1000)) // make values distinguishable
		}
		return c
	}
	origin := func(s string) string {
		return rng.Pick([]string{"literal", "literal", "var", "concat", "runtime", "call"})
	}
	// model while generating, so that reads only target existing files
	files := map[string]bool{}
	dirs := map[string]bool{"sub": true}
	h.Ops = append(h.Ops, c17Op{Kind: "ext-mkdir", Path: "sub"})
	for _, p := range paths {
		// (a path of the pool that lies in another directory, e.g. one literally named "~")
		if i := strings.LastIndex(p, "/"); i > 0 && !dirs[p[:i]] {
			dirs[p[:i]] = true
			h.Ops = append(h.Ops, c17Op{Kind: "ext-mkdir", Path: p[:i]})
		}
	}
	// some files exist before the first script starts, created by something else than write()
	zeroByte := []string{}
	if rng.Chance(30) {
		for k := rng.Range(1, 2); k > 0; k-- {
			p := rng.Pick(paths)
			if files[p] || strings.HasPrefix(p, "sub/") && false {
				continue
			}
			c := content()
			switch rng.Intn(4) {
			case 0:
				c += "\n"
			case 1:
				c += "\n" + content()
			case 2:
				c += "\n" + content() + "\n\n"
			}
			if rng.Chance(15) {
				c = "" // a file of no bytes at all (touch, : > f): write() never makes one
				zeroByte = append(zeroByte, p)
			}
			h.Ops = append(h.Ops, c17Op{Kind: "ext-create", Path: p, Content: c})
			files[p] = true
		}
		// a file of no bytes is read by a piece of code that has just read a file with content
		// (the same function, the same loop body): what it returns is the empty string
		for _, z := range zeroByte {
			for _, q := range paths {
				if files[q] && q != z {
					rd := rng.Pick([]string{"shared", "shared", "funcparam", "direct"})
					h.Ops = append(h.Ops, c17Op{Kind: "read", Path: q, Render: rd, POrigin: "literal"}, c17Op{Kind: "read", Path: z, Render: rd, POrigin: "literal"})
					break
				}
			}
		}
	}
	n := rng.Range(1, 25)
	cuts := rng.Intn(3)
	burst := 0
	burstPath := ""
	for i := 0; i < n; i++ {
		p := rng.Pick(paths)
		// bursts: several consecutive operations on ONE file in straight-line code
		// (no call, branch or loop in between), with changing operand origins and
		// spellings — the situation in which state kept by the emitter between
		// operations (a remembered result, a reused helper) becomes visible
		if burst == 0 && rng.Chance(12) {
			burst = rng.Range(3, 6)
			burstPath = p
		}
		inBurst := burst > 0
		if inBurst {
			burst--
			p = burstPath
		}
		render := rng.Pick([]string{"top", "direct", "direct", "direct", "funcparam", "funcglobal", "funcdirect", "nested", "nested", "if", "ifdirect", "for", "fordirect", "shared", "shared", "unused", "elsedirect", "scopes", "reexec", "paramglobal", "untilexists", "nottaken", "multiret", "globalupdate", "afterchain", "flagafter", "loopswitch", "loopcall", "rangeread", "guard2"})
		if inBurst {
			render = rng.Pick([]string{"direct", "direct", "top"})
		}
		spell := ""
		if rng.Chance(map[bool]int{true: 40, false: 15}[inBurst]) && !strings.HasPrefix(p, "-") && !strings.HasPrefix(p, " ") && !strings.HasPrefix(p, "~") {
			spell = rng.Pick([]string{"dot", "updown"})
		}
		k := rng.Intn(100)
		if inBurst {
			k = rng.Pick2([]int{5, 35, 60, 60, 80, 80}) // write, append, read, read, exists, exists
		}
		count := 0
		if (render == "for" || render == "fordirect") && rng.Chance(30) {
			// the loop really loops: a few, some dozen, or more iterations than a process may hold open files (the scripts run under ulimit -n 256, the default of macOS)
			count = rng.Pick2([]int{2, 3, 3, 40, 40, 300})
		}
		switch {
		case k < 22:
			h.Ops = append(h.Ops, c17Op{Kind: "write", Spell: spell, Path: p, Content: content(), Render: render, POrigin: origin(p), COrigin: origin(""), Count: count})
			files[p] = files[p] || render != "nottaken"
		case k < 30:
			h.Ops = append(h.Ops, c17Op{Kind: "writeF", Spell: spell, Path: p, Content: content(), Render: render, POrigin: origin(p), COrigin: origin(""), Count: count})
			files[p] = files[p] || render != "nottaken"
		case k < 46:
			h.Ops = append(h.Ops, c17Op{Kind: "append", Spell: spell, Path: p, Content: content(), Render: render, POrigin: origin(p), COrigin: origin(""), Count: count})
			files[p] = files[p] || render != "nottaken"
		case k < 54:
			fl := rng.Chance(50)
			cond := 0
			if rng.Chance(60) {
				// any comparison, negation or connective whose value is known: the flag is what the
				// expression says, not how it is spelled
				for tries := 0; tries < 50 && cond == 0; tries++ {
					if k := rng.Intn(len(c17Conds)); c17Conds[k].Val == fl {
						cond = k + 1
					}
				}
			}
			h.Ops = append(h.Ops, c17Op{Kind: "appendVar", Spell: spell, Path: p, Content: content(), Render: render, POrigin: origin(p), COrigin: origin(""), Flag: fl, Cond: cond, Count: count})
			files[p] = files[p] || render != "nottaken"
		case k < 74:
			if !files[p] {
				// read needs an existing file: write first
				h.Ops = append(h.Ops, c17Op{Kind: "write", Path: p, Content: content(), Render: "top", POrigin: "literal", COrigin: "literal"})
				files[p] = true
			}
			rop := c17Op{Kind: "read", Spell: spell, Path: p, Render: render, POrigin: origin(p)}
			if rng.Chance(22) {
				// the result is consumed inside a larger expression
				rop.Comp = rng.Pick([]string{"cat2", "eq2", "args2", "thenmod"})
				if rop.Comp == "thenmod" {
					rop.Content, rop.COrigin = content(), rng.Pick([]string{"literal", "literal", "var", "runtime"})
				} else {
					others := []string{}
					for _, q := range paths {
						if files[q] {
							others = append(others, q)
						}
					}
					rop.Path2 = rng.Pick(others) // (p itself is among them)
				}
			}
			h.Ops = append(h.Ops, rop)
		case k < 90:
			q := p
			if rng.Chance(25) {
				q = rng.Pick([]string{"sub", "sub/", "sub/.", "absent.txt", "sub/none", "nothing here", "absent/", "."})
				if population == "base" && strings.Contains(q, " ") {
					q = "absent.txt"
				}
			}
			sp := map[bool]string{true: spell, false: ""}[q == p]
			if q == p && rng.Chance(12) {
				sp = rng.Pick([]string{"slash", "slashdot", "ghost"})
			}
			eop := c17Op{Kind: "exists", Spell: sp, Path: q, Render: render, POrigin: origin(q)}
			if q == p && (sp == "" || sp == "dot" || sp == "updown") && rng.Chance(18) {
				eop.Comp, eop.Content, eop.COrigin = "thenmod", content(), rng.Pick([]string{"literal", "literal", "var", "runtime"})
				files[p] = true
			}
			h.Ops = append(h.Ops, eop)
		case k < 94:
			if cuts > 0 {
				cuts--
				h.Ops = append(h.Ops, c17Op{Kind: "cut"})
				switch rng.Intn(4) {
				case 0:
					if files[p] {
						h.Ops = append(h.Ops, c17Op{Kind: "ext-delete", Path: p})
						delete(files, p)
					}
				case 1:
					c := content() + "\n" + content()
					if rng.Chance(50) {
						c += "\n"
					}
					if rng.Chance(20) {
						c = ""
					}
					h.Ops = append(h.Ops, c17Op{Kind: "ext-create", Path: p, Content: c})
					files[p] = true
				}
			}
		default:
			if !files[p] && !dirs[p] && rng.Chance(50) && !strings.Contains(p, "/") {
				// nothing: keeps some paths absent for exists()
			}
		}
	}
	// some writes take their content from an inline read(q) — of another file or of the
	// written file itself (rewrite, copy): the value is whatever q holds at that moment
	have := map[string]bool{}
	for i := range h.Ops {
		op := &h.Ops[i]
		switch op.Kind {
		case "write", "writeF", "append", "appendVar":
			if len(have) > 0 && rng.Chance(10) {
				// (the source path is written as a literal: paths with quote characters would only
				// re-find the listed literal-quoting finding)
				cands := []string{}
				for _, k := range sortedKeys(have) {
					if !strings.ContainsAny(k, "\"$`\\") {
						cands = append(cands, k)
					}
				}
				if len(cands) == 0 {
					have[op.Path] = true
					continue
				}
				op.ReadFrom = cands[rng.Intn(len(cands))]
				if have[op.Path] && rng.Chance(50) && !strings.ContainsAny(op.Path, "\"$`\\") {
					op.ReadFrom = op.Path
				}
				op.COrigin = "readof"
			}
			have[op.Path] = true
		case "ext-create":
			have[op.Path] = true
		case "ext-delete":
			delete(have, op.Path)
		}
	}
	return h
}

// valid reports whether the history stays inside the specified behaviour:
// reads only of existing files, writes only into existing directories and
// never onto a directory. Minimisation must not leave this set.
func (h *c17Hist) valid() bool {
	files := map[string]bool{}
	dirs := map[string]bool{}
	segStart := true // external steps are applied before the script of their segment runs
	for _, op := range h.Ops {
		switch op.Kind {
		case "cut":
			segStart = true
		case "ext-mkdir", "ext-create", "ext-delete":
			if !segStart {
				return false
			}
		default:
			segStart = false
		}
		if op.Spell == "updown" && !dirs["sub"] {
			return false // "sub/../p" needs the directory it walks through
		}
		parentOK := !strings.Contains(op.Path, "/") || dirs[op.Path[:strings.LastIndex(op.Path, "/")]]
		switch op.Kind {
		case "ext-mkdir":
			dirs[op.Path] = true
		case "ext-create", "write", "writeF", "append", "appendVar":
			if !parentOK || dirs[op.Path] {
				return false
			}
			if op.COrigin == "readof" && !files[op.ReadFrom] {
				return false
			}
			if op.Render != "nottaken" || op.Kind == "ext-create" {
				files[op.Path] = true
			}
		case "ext-delete":
			delete(files, op.Path)
		case "read":
			if !files[op.Path] {
				return false
			}
			switch op.Comp {
			case "cat2", "eq2", "args2":
				if !files[op.Path2] {
					return false
				}
			case "thenmod":
				if !parentOK || dirs[op.Path] {
					return false
				}
			}
		case "exists":
			if op.Comp == "thenmod" {
				if !parentOK || dirs[op.Path] || op.Spell == "slash" || op.Spell == "slashdot" || op.Spell == "ghost" {
					return false
				}
				files[op.Path] = true
			}
		}
	}
	return true
}

// ---------------------------------------------------------------- rendering

func tshLit(rng *gen.Rng, s string) string {
	if rng != nil && !strings.ContainsAny(s, "`") && rng.Chance(20) {
		return "`" + s + "`"
	}
	var sb strings.Builder
	sb.WriteByte('"')
	for _, c := range []byte(s) {
		switch c {
		case '"':
			sb.WriteString(`\"`)
		case '\\':
			sb.WriteString(`\\`)
		case '\n':
			sb.WriteString(`\n`)
		case '\t':
			sb.WriteString(`\t`)
		default:
			sb.WriteByte(c)
		}
	}
	sb.WriteByte('"')
	return sb.String()
}

type c17Segment struct {
	Program  string
	Pre      []c17Op            // external steps applied before the script runs
	Seeds    map[string]string  // seed files (name -> content) that must exist before the script runs
	Modules  map[string]string  // source files next to main.tsh that the program imports (path relative to it -> content)
	Expect   []c17Expect        // observations expected from the script, in order
	After    *c17Model          // model state after the script
	OpIdx    []int              // indices of the ops rendered in this segment
}

type c17Expect struct {
	ID   int
	Kind string // read | exists
	Want string
	Op   c17Op
}

type c17Model struct {
	Files map[string]string
	Dirs  map[string]bool
}

func (m *c17Model) clone() *c17Model {
	c := &c17Model{Files: map[string]string{}, Dirs: map[string]bool{}}
	for k, v := range m.Files {
		c.Files[k] = v
	}
	for k := range m.Dirs {
		c.Dirs[k] = true
	}
	return c
}

// render cuts the history into segments, renders each as a TypeShell program
// and advances the reference model. seed derives the rendering choices
// (where to split a concatenation, raw or quoted literal).
func (h *c17Hist) render(seed uint64) []*c17Segment {
	rng := gen.NewRng(seed)
	m := &c17Model{Files: map[string]string{}, Dirs: map[string]bool{}}
	segs := []*c17Segment{}
	cur := &c17Segment{Seeds: map[string]string{}}
	var sb strings.Builder
	// identifier naming: 35 % of the histories draw every generated identifier from an
	// adversarial theme (collision families, case twins, helper look-alikes, shell words)
	advNames := rng.Chance(35)
	// ordinary-looking names only: families that collide once a prefix and a name are
	// glued together, and names that differ only in case. Helper look-alikes (_h0 …) and
	// names of commands the emitted script itself calls are left out on purpose: the
	// property quantifies over paths, contents and histories, not over identifiers that
	// capture the emitter's own names.
	themes := [][]string{
		{"log", "log_file", "file_path", "path", "file", "log_file_path", "a_b", "a", "b_c", "a_b_c", "b", "c", "x_", "x__y", "y", "k_", "log_path", "file_log", "f", "f_p", "p_f", "out", "out_file", "file_name", "name"},
		{"index", "iNDEX", "inDex", "value", "vALUE", "valuE", "data", "dATA", "daTa", "name", "nAME", "naMe", "item", "iTEM"},
	}
	theme := themes[rng.Intn(len(themes))]
	nameMap := map[string]string{}
	usesShared := false
	viaImport := rng.Chance(30) // the shared functions of this history come from an imported module
	const sharedDefs = "func shw(shp string, shs string, sha bool) {\nwrite(shp, shs, sha)\n}\nfunc shw2(shp string, shs string) {\nwrite(shp, shs)\n}\nfunc shr(shp string) string {\nshx := read(shp)\nreturn shx\n}\nfunc she(shp string) bool {\nreturn exists(shp)\n}\n"
	// 40 % of the histories define every self-contained function at the very top of the program
	// and call it where the operation happens: definition order is not execution order
	hoist := rng.Chance(40)
	hoistOK := false // the operation being rendered refers to no top-level variable
	mark := func(def string) string {
		if hoistOK {
			return "\x01" + def + "\x02"
		}
		return def
	}
	flush := func() {
		fmt.Fprintf(&sb, "print(\"<<END>>\")\n")
		prog := sb.String()
		if strings.Contains(prog, "\x01") {
			if hoist {
				var defs strings.Builder
				for _, m := range hoistRe.FindAllStringSubmatch(prog, -1) {
					defs.WriteString(m[1])
				}
				prog = defs.String() + hoistRe.ReplaceAllString(prog, "")
			} else {
				prog = hoistRe.ReplaceAllString(prog, "$1")
			}
		}
		cur.Program = prog
		if advNames {
			cur.Program = renameIdentifiers(cur.Program, nameMap, theme, rng)
		}
		if usesShared && viaImport {
			// the shared functions live in an imported module; a SECOND module with the same base name
			// in another directory, the same function names and other behaviour is imported first
			p := cur.Program
			for _, r := range [][2]string{{"shw2(", "sa.Shw2("}, {"shw(", "sa.Shw("}, {"shr(", "sa.Shr("}, {"she(", "sa.She("}} {
				p = strings.ReplaceAll(p, r[0], r[1])
			}
			cur.Program = "import (\n\tsb \"mods/b/store.tsh\"\n\tsa \"mods/a/store.tsh\"\n)\n" + p
			cur.Modules = map[string]string{"mods/a/store.tsh": sharedModule(""), "mods/b/store.tsh": sharedModule(" + \".b\"")}
			usesShared = false
		} else if usesShared {
			// one set of functions used by many operations of this script
			cur.Program = sharedDefs + cur.Program
			usesShared = false
		}
		cur.After = m.clone()
		segs = append(segs, cur)
		cur = &c17Segment{Seeds: map[string]string{}}
		sb.Reset()
	}
	seedN := 0
	operand := func(id int, role string, origin string, val string, pre *strings.Builder) string {
		if origin == "runtime" && (strings.HasSuffix(val, "\n") || val == "") {
			origin = "var" // read() cannot deliver a value that ends in a newline: bring it in through a variable
		}
		switch origin {
		case "var":
			name := fmt.Sprintf("%sv%d", role, id)
			fmt.Fprintf(pre, "%s := %s\n", name, tshLit(rng, val))
			return name
		case "concat":
			if len(val) >= 2 {
				cut := 1 + rng.Intn(len(val)-1)
				return tshLit(rng, val[:cut]) + " + " + tshLit(rng, val[cut:])
			}
			return tshLit(rng, val)
		case "call":
			// the value is the result of a function that is called here and nowhere else
			name := fmt.Sprintf("%sk%d", role, id)
			fmt.Fprintf(pre, "\x01func %s() string {\nreturn %s\n}\n\x02", name, tshLit(rng, val))
			return name + "()"
		case "runtime":
			seedN++
			name := fmt.Sprintf("seed_%d.in", seedN)
			cur.Seeds[name] = val
			m.Files[name] = val
			v := fmt.Sprintf("%sr%d", role, id)
			fmt.Fprintf(pre, "%s := read(%q)\n", v, name)
			return v
		}
		return tshLit(rng, val)
	}
	curPath := "" // the path of the operation being rendered, as the program spells it
	loopN := 1 // iterations of the for/fordirect rendering of the operation being rendered
	wrap := func(render string, id int, body string, params [][2]string) string {
		// params: (name, argument expression); body uses the names
		if strings.HasSuffix(render, "direct") {
			// the operands stand directly in the builtin call (the form the tests and the README use)
			for _, p := range params {
				body = strings.ReplaceAll(body, p[0], p[1])
			}
			switch render {
			case "funcdirect":
				return mark(fmt.Sprintf("func fn%d() {\n%s}\n", id, body)) + fmt.Sprintf("fn%d()\n", id)
			case "ifdirect":
				return "if true {\n" + body + "}\n"
			case "elsedirect":
				// the same statement stands in both branches; only the else branch runs
				return "if 2 < 1 {\n" + body + "} else {\n" + body + "}\n"
			case "fordirect":
				return fmt.Sprintf("for it%d := 0; it%d < %d; it%d++ {\n%s}\n", id, id, loopN, id, body)
			}
			return body
		}
		switch render {
		case "nested":
			// the operation happens in a function AFTER it called another function that has
			// local variables of its own (name handling across nested calls)
			ps, as := []string{}, []string{}
			for _, p := range params {
				ps = append(ps, p[0]+" "+"string")
				as = append(as, p[1])
			}
			if advNames && rng.Chance(60) && len(params) > 0 {
				// split-point family: callee "t1_t2" with local "t3", caller "t1" with parameter
				// "t2_t3" (and the other way round): any scheme that glues a function name and a
				// variable name with "_" maps both to the same script variable
				words := []string{"log", "file", "path", "out", "name", "tmp", "data", "item", "cfg", "key"}
				t1, t2, t3 := words[rng.Intn(len(words))], words[rng.Intn(len(words))], words[rng.Intn(len(words))]
				sfx := fmt.Sprint(id)
				inner, innerVar, outer, outerVar := t1+"_"+t2+sfx, t3, t1, t2+sfx+"_"+t3
				if rng.Chance(50) {
					inner, innerVar, outer, outerVar = t1, t2+sfx+"_"+t3, t1+"_"+t2+sfx, t3
				}
				taken := false
				for _, v := range nameMap {
					if v == inner || v == outer || v == innerVar || v == outerVar {
						taken = true
					}
				}
				if !taken && inner != outer {
					nameMap[fmt.Sprintf("fi%d", id)] = inner
					nameMap[fmt.Sprintf("v%d", id)] = innerVar
					nameMap[fmt.Sprintf("fn%d", id)] = outer
					nameMap[params[0][0]] = outerVar
				}
			}
			return fmt.Sprintf("func fi%d(q%d string) string {\nv%d := q%d + \"!\"\nw%d := v%d\nreturn w%d\n}\nfunc fn%d(%s) {\nu%d := fi%d(\"k\")\n%sprint(\"<<N>>\" + u%d)\n}\nfn%d(%s)\n",
				id, id, id, id, id, id, id, id, strings.Join(ps, ", "), id, id, body, id, id, strings.Join(as, ", "))
		case "loopswitch":
			// the operation follows, in a loop body, a switch that holds a continue (taken in the first
			// round) and a break of its own (never reached): it runs in the rounds 1 and 2 only
			var g strings.Builder
			for _, p := range params {
				fmt.Fprintf(&g, "%s := %s\n", p[0], p[1])
			}
			switch id % 3 {
			case 0:
				fmt.Fprintf(&g, "for it%d := 0; it%d < 3; it%d++ {\nswitch it%d {\ncase 0:\ncontinue\ncase 7:\nbreak\n}\n%s}\n", id, id, id, id, body)
			case 1:
				// the continue stands in a LATER case
				fmt.Fprintf(&g, "for it%d := 0; it%d < 3; it%d++ {\nswitch it%d {\ncase 7:\nbreak\ncase 8:\nprint(\"<<N>>\")\ncase 0:\ncontinue\n}\n%s}\n", id, id, id, id, body)
			default:
				// … or in an else-if branch
				fmt.Fprintf(&g, "for it%d := 0; it%d < 3; it%d++ {\nif it%d == 7 {\nprint(\"<<N>>\")\n} else if it%d == 8 {\nprint(\"<<N>>\")\n} else if it%d == 0 {\ncontinue\n}\n%s}\n", id, id, id, id, id, id, body)
			}
			return g.String()
		case "loopcall":
			// the operation stands in a counting (or range) loop that, in its second round only, calls
			// a function with loops of its own - a condition-only one and a counting one, at the same
			// nesting depth as the caller's loop: it runs exactly three times
			var g strings.Builder
			condLoop := fmt.Sprintf("for k%d < n%d {\nk%d = k%d + 1\n}\n", id, id, id, id)
			countLoop := fmt.Sprintf("for j%d := 0; j%d < 2; j%d++ {\nk%d = k%d + 1\n}\n", id, id, id, id, id)
			// which loop the callee runs LAST differs (a loop leaves its bookkeeping behind)
			loops := [][]string{{condLoop}, {countLoop, condLoop}, {condLoop, countLoop}, {countLoop}}[(id/2)%4]
			fmt.Fprintf(&g, "func lk%d(n%d int) int {\nk%d := 0\n%sreturn k%d\n}\n", id, id, id, strings.Join(loops, ""), id)
			for _, p := range params {
				fmt.Fprintf(&g, "%s := %s\n", p[0], p[1])
			}
			if id%2 == 0 {
				fmt.Fprintf(&g, "for it%d := 0; it%d < 3; it%d++ {\nif it%d == 1 {\nz%d := lk%d(2)\nprint(\"<<N>>\", z%d)\n}\n%s}\n", id, id, id, id, id, id, id, body)
			} else {
				fmt.Fprintf(&g, "xs%d := []int{7, 8, 9}\nfor it%d, e%d := range xs%d {\nif it%d == 1 {\nz%d := lk%d(e%d - 6)\nprint(\"<<N>>\", z%d)\n}\n%s}\n", id, id, id, id, id, id, id, id, id, body)
			}
			return g.String()
		case "afterchain":
			// the operation FOLLOWS an if / else-if / else chain (or a switch with default) whose
			// first and last branches leave the function, while the branch that is taken does not
			ps, as := []string{}, []string{}
			for _, p := range params {
				ps = append(ps, p[0]+" "+"string")
				as = append(as, p[1])
			}
			chain := fmt.Sprintf("if 2 < 1 {\nreturn \"a\"\n} else if 1 < 2 {\ngq%d := 1\ngq%d++\n} else {\nreturn \"c\"\n}\n", id, id)
			if rng.Chance(40) {
				chain = fmt.Sprintf("switch 2 {\ncase 1:\nreturn \"a\"\ncase 2:\ngq%d := 1\ngq%d++\ndefault:\nreturn \"c\"\n}\n", id, id)
			}
			return fmt.Sprintf("func fn%d(%s) string {\n%s%sreturn \"done\"\n}\ngr%d := fn%d(%s)\nprint(\"<<N>>\" + gr%d)\n", id, strings.Join(ps, ", "), chain, body, id, id, strings.Join(as, ", "), id)
		case "flagafter":
			// the append flag is exists(p), evaluated AFTER the content argument, which is a call of a
			// function that (re)creates p with a heading: arguments are evaluated from left to right
			var g strings.Builder
			fmt.Fprintf(&g, "func gh%d(gp%d string, gc%d string) string {\nwrite(gp%d, \"# heading\")\nreturn gc%d\n}\n", id, id, id, id, id)
			fmt.Fprintf(&g, "write(%s, gh%d(%s, %s), exists(%s))\n", params[0][1], id, params[0][1], params[1][1], params[0][1])
			return g.String()
		case "globalupdate":
			// the path lives in a GLOBAL that a function completes with a compound assignment
			// (logfile += ".1" in rotate()); the operation then uses the global
			if len(params[0][1]) > 0 && hoistOK && len(curPath) >= 2 {
				cut := 1 + rng.Intn(len(curPath)-1)
				var g strings.Builder
				fmt.Fprintf(&g, "var gu%d string = %s\nfunc fn%d(gx%d string) {\ngu%d += gx%d\n}\nfn%d(%s)\n", id, tshLit(rng, curPath[:cut]), id, id, id, id, id, tshLit(rng, curPath[cut:]))
				for _, p := range params[1:] {
					fmt.Fprintf(&g, "%s := %s\n", p[0], p[1])
				}
				return g.String() + strings.ReplaceAll(body, params[0][0], fmt.Sprintf("gu%d", id))
			}
			var g strings.Builder
			for _, p := range params {
				fmt.Fprintf(&g, "%s := %s\n", p[0], p[1])
			}
			return g.String() + body
		case "nottaken":
			// the operation stands where control never goes: it must NOT happen (the model skips it)
			var g strings.Builder
			for _, p := range params {
				fmt.Fprintf(&g, "%s := %s\n", p[0], p[1])
			}
			switch rng.Intn(5) {
			case 0:
				fmt.Fprintf(&g, "if 2 < 1 {\n%s}\n", body)
			case 1: // an empty branch whose condition holds guards the branches after it
				fmt.Fprintf(&g, "if 2 < 1 {\n} else if 1 < 2 {\n} else if 1 < 2 {\n%s}\n", body)
			case 2:
				fmt.Fprintf(&g, "if 2 < 1 {\n} else if 1 < 2 {\n// nothing to do\n} else if 1 < 2 {\n%s} else if 1 < 2 {\n%s}\n", body, body)
			case 3:
				fmt.Fprintf(&g, "switch 2 {\ncase 1:\n%scase 2:\ncase 3:\n%s}\n", body, body)
			default:
				fmt.Fprintf(&g, "for it%d := 0; it%d < 3; it%d++ {\nif it%d >= 0 {\nbreak\n}\n%s}\n", id, id, id, id, body)
			}
			return g.String()
		case "untilexists":
			// the operation is the body of a loop that runs until the file exists: exists() stands in
			// the loop condition (with the path as the operation spells it) and must see the write
			var g strings.Builder
			for _, p := range params[1:] {
				fmt.Fprintf(&g, "%s := %s\n", p[0], p[1])
			}
			fmt.Fprintf(&g, "gn%d := 0\nfor !exists(%s) {\ngn%d++\n%sif gn%d > 3 {\nbreak\n}\n}\n", id, params[0][1], id, strings.ReplaceAll(body, params[0][0], params[0][1]), id)
			return g.String()
		case "reexec":
			// a body that runs twice (a function called twice, or two rounds of a loop) declares
			// variables WITHOUT an initialiser: they start from their default on every execution. The
			// first execution sets one of them and skips the operation, the second must find the
			// default again and performs the operation
			ps, as := []string{}, []string{}
			for _, p := range params {
				ps = append(ps, p[0]+" "+"string")
				as = append(as, p[1])
			}
			typ, set, isDefault := "string", "\"x\"", "== \"\""
			switch rng.Intn(3) {
			case 1:
				typ, set, isDefault = "error", "\"failed\"", "== nil"
			case 2:
				typ, set, isDefault = "int", "7", "== 0"
			}
			if rng.Chance(50) {
				return fmt.Sprintf("func fn%d(%s, on%d bool) {\nvar gd%d %s\nif on%d {\ngd%d = %s\n}\nif gd%d %s {\n%s}\n}\nfn%d(%s, true)\nfn%d(%s, false)\n",
					id, strings.Join(ps, ", "), id, id, typ, id, id, set, id, isDefault, body, id, strings.Join(as, ", "), id, strings.Join(as, ", "))
			}
			var g strings.Builder
			for _, p := range params {
				fmt.Fprintf(&g, "%s := %s\n", p[0], p[1])
			}
			fmt.Fprintf(&g, "for it%d := 0; it%d < 2; it%d++ {\nvar gd%d %s\nif it%d == 0 {\ngd%d = %s\n}\nif gd%d %s {\n%s}\n}\n", id, id, id, id, typ, id, id, set, id, isDefault, body)
			return g.String()
		case "paramglobal":
			// a parameter and a global of the same name: the global is defined BELOW the function (the
			// other order is rejected), holds a literal and is never assigned again; inside the
			// function the name means the parameter
			ps, as := []string{}, []string{}
			body2 := body
			var g strings.Builder
			for k, p := range params {
				nm := fmt.Sprintf("gq%d_%d", id, k)
				ps = append(ps, nm+" string")
				as = append(as, p[1])
				body2 = strings.ReplaceAll(body2, p[0], nm)
				fmt.Fprintf(&g, "%s := %s\n", nm, tshLit(rng, fmt.Sprintf("decoy-%d-%d.txt", id, k)))
			}
			return fmt.Sprintf("func fn%d(%s) {\n%s}\n%sfn%d(%s)\n", id, strings.Join(ps, ", "), body2, g.String(), id, strings.Join(as, ", "))
		case "scopes":
			// one identifier, two scopes: a function has a local with the name of a variable that
			// is defined in a top-level block, and the function is called between the definition
			// and the use of the block variable
			nm := rng.Pick([]string{"tmpv", "scratch", "acc", "cur", "buf", "line0"}) // (no theme and no generated identifier uses these: a block variable may not shadow a global)
			var g strings.Builder
			fmt.Fprintf(&g, "func fn%d(a%d string) string {\n%s := a%d + \"!\"\nreturn %s\n}\n", id, id, nm, id, nm)
			for _, p := range params[1:] {
				fmt.Fprintf(&g, "%s := %s\n", p[0], p[1])
			}
			fmt.Fprintf(&g, "if true {\n%s := %s\nk%d := fn%d(\"k\")\n%sprint(\"<<N>>\" + k%d)\n}\n", nm, params[0][1], id, id, strings.ReplaceAll(body, params[0][0], nm), id)
			return g.String()
		case "unused":
			// the operation happens in a function whose VALUE is an operand of an expression that
			// initialises a top-level variable nobody ever reads: the call must still happen
			ps, as := []string{}, []string{}
			for _, p := range params {
				ps = append(ps, p[0]+" "+"string")
				as = append(as, p[1])
			}
			call := fmt.Sprintf("fn%d(%s)", id, strings.Join(as, ", "))
			stmt := ""
			switch rng.Intn(6) {
			case 0:
				stmt = fmt.Sprintf("uu%d := %s", id, call)
			case 1:
				stmt = fmt.Sprintf("uu%d := %s == \"r\"", id, call)
			case 2:
				stmt = fmt.Sprintf("uu%d := len(%s)", id, call)
			case 3:
				stmt = fmt.Sprintf("uu%d := %s + \"!\"", id, call)
			case 4:
				stmt = fmt.Sprintf("var uu%d bool = \"r\" != %s", id, call)
			default:
				stmt = fmt.Sprintf("uu%d, uv%d := 1, %s", id, id, call)
			}
			return mark(fmt.Sprintf("func fn%d(%s) string {\n%sreturn \"r\"\n}\n", id, strings.Join(ps, ", "), body)) + stmt + "\n"
		case "funcparam":
			ps, as := []string{}, []string{}
			for _, p := range params {
				ps = append(ps, p[0]+" "+"string")
				as = append(as, p[1])
			}
			return mark(fmt.Sprintf("func fn%d(%s) {\n%s}\n", id, strings.Join(ps, ", "), body)) + fmt.Sprintf("fn%d(%s)\n", id, strings.Join(as, ", "))
		case "funcglobal":
			var g strings.Builder
			for _, p := range params {
				fmt.Fprintf(&g, "var %s string = %s\n", p[0], p[1])
			}
			return g.String() + fmt.Sprintf("func fn%d() {\n%s}\nfn%d()\n", id, body, id)
		}
		var g strings.Builder
		for _, p := range params {
			fmt.Fprintf(&g, "%s := %s\n", p[0], p[1])
		}
		switch render {
		case "if":
			return g.String() + "if true {\n" + body + "}\n"
		case "for":
			return g.String() + fmt.Sprintf("for it%d := 0; it%d < %d; it%d++ {\n%s}\n", id, id, loopN, id, body)
		}
		return g.String() + body
	}
	for i, op := range h.Ops {
		id := i
		switch op.Kind {
		case "cut":
			flush()
		case "ext-mkdir":
			cur.Pre = append(cur.Pre, op)
			m.Dirs[op.Path] = true
		case "ext-create":
			cur.Pre = append(cur.Pre, op)
			m.Files[op.Path] = op.Content
		case "ext-delete":
			cur.Pre = append(cur.Pre, op)
			delete(m.Files, op.Path)
		case "write", "writeF", "append", "appendVar":
			var pre strings.Builder
			pe := operand(id, "p", op.POrigin, op.spelled(), &pre)
			var ce string
			if src, ok := m.Files[op.ReadFrom]; op.COrigin == "readof" && ok && !strings.HasSuffix(src, "\n\n") && src != "\n" && src != "" {
				// the content is read(q) evaluated in place; the model knows what q holds now
				op.Content = strings.TrimSuffix(src, "\n")
				ce = "read(" + tshLit(rng, op.ReadFrom) + ")"
			} else {
				o := op.COrigin
				if o == "readof" {
					o = "literal"
				}
				ce = operand(id, "c", o, op.Content, &pre)
			}
			pn, cn := fmt.Sprintf("wp%d", id), fmt.Sprintf("wc%d", id)
			call := ""
			isAppend := false
			switch op.Kind {
			case "write":
				call = fmt.Sprintf("write(%s, %s)\n", pn, cn)
			case "writeF":
				call = fmt.Sprintf("write(%s, %s, false)\n", pn, cn)
			case "append":
				call = fmt.Sprintf("write(%s, %s, true)\n", pn, cn)
				isAppend = true
			case "appendVar":
				// a computed flag: 1 < 2 is true, 2 < 1 is false
				cond := "2 < 1"
				if op.Flag {
					cond = "1 < 2"
				}
				if op.Cond > 0 && op.Cond <= len(c17Conds) && c17Conds[op.Cond-1].Val == op.Flag {
					cond = c17Conds[op.Cond-1].Expr
				}
				call = fmt.Sprintf("fl%d := %s\nwrite(%s, %s, fl%d)\n", id, cond, pn, cn, id)
				if rng.Chance(40) {
					// the flag is the result of a function that is called in this position only
					pre.WriteString(fmt.Sprintf("\x01func fk%d() bool {\nreturn %s\n}\n\x02", id, cond))
					call = fmt.Sprintf("write(%s, %s, fk%d())\n", pn, cn, id)
				}
				isAppend = op.Flag
			}
			sb.WriteString(pre.String())
			if op.Render == "shared" {
				usesShared = true
				switch op.Kind {
				case "write":
					fmt.Fprintf(&sb, "shw2(%s, %s)\n", pe, ce)
				case "writeF":
					fmt.Fprintf(&sb, "shw(%s, %s, false)\n", pe, ce)
				case "append":
					fmt.Fprintf(&sb, "shw(%s, %s, true)\n", pe, ce)
				default:
					cond := "2 < 1"
					if op.Flag {
						cond = "1 < 2"
					}
					fmt.Fprintf(&sb, "fl%d := %s\nshw(%s, %s, fl%d)\n", id, cond, pe, ce, id)
				}
			} else {
				curPath = op.spelled()
				selfContained := func(o string) bool { return o == "literal" || o == "call" || o == "" }
				hoistOK = selfContained(op.POrigin) && selfContained(op.COrigin) && op.Kind != "appendVar"
				loopN = 1
				if op.Render == "loopswitch" {
					if op.COrigin == "readof" {
						op.Render = "direct" // (an inline read(q) as content would change from round to round)
					} else {
						loopN = 2
					}
				}
				if op.Render == "loopcall" {
					if op.COrigin == "readof" {
						op.Render = "direct"
					} else {
						loopN = 3
					}
				}
				if op.Count > 1 && (op.Render == "for" || op.Render == "fordirect") && op.COrigin != "readof" {
					loopN = op.Count // (an inline read(q) as content would change from iteration to iteration)
					if len(op.Content) > 4096 {
						loopN = min(loopN, 3)
					}
				}
				sb.WriteString(wrap(op.Render, id, call, [][2]string{{pn, pe}, {cn, ce}}))
				hoistOK = false
			}
			_, wasFile := m.Files[op.Path]
			if op.Render == "untilexists" && (wasFile || m.Dirs[op.Path]) {
				// the loop does not run at all
			} else if op.Render == "nottaken" {
				// control never reaches the operation
			} else if op.Render == "flagafter" {
				m.Files[op.Path] = "# heading\n" + op.Content + "\n" // (whatever the operation's own kind: the rendering is one fixed statement)
			} else if isAppend {
				m.Files[op.Path] = m.Files[op.Path] + strings.Repeat(op.Content+"\n", loopN)
			} else {
				m.Files[op.Path] = op.Content + "\n"
			}
			loopN = 1
			cur.OpIdx = append(cur.OpIdx, i)
		case "read":
			if op.Render == "rangeread" && len(m.Files[op.Path]) > 48 {
				op.Render = "direct" // (the emitted character loop costs a sub-shell per character: long contents would only measure that)
			}
			var pre strings.Builder
			pe := operand(id, "p", op.POrigin, op.spelled(), &pre)
			pn := fmt.Sprintf("rp%d", id)
			sb.WriteString(pre.String())
			if op.Comp != "" {
				unspecified := func(f string) bool { return strings.HasSuffix(f, "\n\n") || f == "\n" }
				a := strings.TrimSuffix(m.Files[op.Path], "\n")
				unspec := unspecified(m.Files[op.Path])
				var pre2 strings.Builder
				expr, want, kind, typ := "", "", "read", "string"
				switch op.Comp {
				case "cat2", "eq2", "args2":
					o2 := "literal"
					if strings.ContainsAny(op.Path2, "\"$`\\") {
						o2 = "runtime" // (a literal would only re-find the listed literal-quoting finding)
					}
					pe2 := operand(id, "q", o2, op.Path2, &pre2)
					b := strings.TrimSuffix(m.Files[op.Path2], "\n")
					unspec = unspec || unspecified(m.Files[op.Path2])
					comp := op.Comp
					if comp == "eq2" {
						// (== on values of the extended alphabet would test the comparison operator, which is
						// not C17's subject: such values are concatenated instead)
						for _, f := range c17CharFeatures {
							if f.Has(a) || f.Has(b) {
								comp = "cat2"
							}
						}
					}
					switch comp {
					case "cat2":
						expr, want = fmt.Sprintf("read(%s) + read(%s)", pe, pe2), a+b
					case "eq2":
						expr, kind, typ = fmt.Sprintf("read(%s) == read(%s)", pe, pe2), "exists", "bool"
						want = map[bool]string{true: "1", false: "0"}[a == b]
					default:
						fmt.Fprintf(&pre2, "func gj%d(ga%d string, gb%d string) string {\nreturn ga%d + \"/\" + gb%d\n}\n", id, id, id, id, id)
						expr, want = fmt.Sprintf("gj%d(read(%s), read(%s))", id, pe, pe2), a+"/"+b
					}
				default: // thenmod
					ce := operand(id, "c", op.COrigin, op.Content, &pre2)
					fmt.Fprintf(&pre2, "func gm%d(gp%d string) string {\nwrite(gp%d, %s, true)\nreturn \"+\"\n}\n", id, id, id, ce)
					expr, want = fmt.Sprintf("read(%s) + gm%d(%s)", pe, id, pe), a+"+"
					m.Files[op.Path] = m.Files[op.Path] + op.Content + "\n"
				}
				sb.WriteString(pre2.String())
				if strings.HasPrefix(op.Render, "func") || op.Render == "nested" {
					fmt.Fprintf(&sb, "func gw%d() %s {\nreturn %s\n}\n", id, typ, expr)
					expr = fmt.Sprintf("gw%d()", id)
				}
				if typ == "bool" {
					fmt.Fprintf(&sb, "ee%d := %s\nprint(\"<<X%d>>\", ee%d, \"<<E%d>>\")\n", id, expr, id, id, id)
				} else {
					fmt.Fprintf(&sb, "rr%d := %s\nprint(\"<<R%d>>\" + rr%d + \"<<E%d>>\")\n", id, expr, id, id, id)
				}
				if unspec {
					kind = "read-unspecified"
				}
				cur.Expect = append(cur.Expect, c17Expect{ID: id, Kind: kind, Want: want, Op: op})
				cur.OpIdx = append(cur.OpIdx, i)
				continue
			}
			switch op.Render {
			case "direct":
				fmt.Fprintf(&sb, "rr%d := read(%s)\n", id, pe)
			case "funcdirect":
				fmt.Fprintf(&sb, "func fn%d() string {\nx%d := read(%s)\nreturn x%d\n}\nrr%d := fn%d()\n", id, id, pe, id, id, id)
			case "ifdirect":
				fmt.Fprintf(&sb, "var rr%d string\nif true {\nrr%d = read(%s)\n}\n", id, id, pe)
			case "fordirect":
				fmt.Fprintf(&sb, "var rr%d string\nfor it%d := 0; it%d < 1; it%d++ {\nrr%d = read(%s)\n}\n", id, id, id, id, id, pe)
			case "multiret":
				// the value is the FIRST of several results, and a later result is a user function call
				// (the other results are checked too: a wrong one is glued to the value that is compared)
				if id%2 == 0 {
					fmt.Fprintf(&sb, "func gk%d(b%d string) string {\nreturn b%d + \"!\"\n}\nfunc fn%d(a%d string) (string, string, int) {\nreturn read(a%d), gk%d(\"k\"), len(gk%d(\"kk\"))\n}\nrr%d, gs%d, gi%d := fn%d(%s)\nprint(\"<<N>>\" + gs%d, gi%d)\nif gs%d != \"k!\" {\nrr%d = rr%d + \"<<WRONG-SECOND-RESULT>>\" + gs%d\n}\nif gi%d != 3 {\nrr%d = rr%d + \"<<WRONG-THIRD-RESULT>>\"\n}\n",
						id, id, id, id, id, id, id, id, id, id, id, id, pe, id, id, id, id, id, id, id, id, id)
				} else {
					// … and the LAST result is a direct call of a user function
					fmt.Fprintf(&sb, "func gk%d(b%d string) string {\nreturn b%d + \"!\"\n}\nfunc fn%d(a%d string) (string, int, string) {\nreturn read(a%d), len(gk%d(\"kk\")), gk%d(\"k\")\n}\nrr%d, gi%d, gs%d := fn%d(%s)\nprint(\"<<N>>\" + gs%d, gi%d)\nif gs%d != \"k!\" {\nrr%d = rr%d + \"<<WRONG-THIRD-RESULT>>\" + gs%d\n}\nif gi%d != 3 {\nrr%d = rr%d + \"<<WRONG-SECOND-RESULT>>\"\n}\n",
						id, id, id, id, id, id, id, id, id, id, id, id, pe, id, id, id, id, id, id, id, id, id)
				}
			case "scopes":
				nm := rng.Pick([]string{"tmpv", "scratch", "acc", "cur", "buf", "line0"}) // (no theme and no generated identifier uses these: a block variable may not shadow a global)
				fmt.Fprintf(&sb, "func fn%d(a%d string) string {\n%s := a%d + \"!\"\nreturn %s\n}\nvar rr%d string\nif true {\n%s := %s\nk%d := fn%d(\"k\")\nrr%d = read(%s)\nprint(\"<<N>>\" + k%d)\n}\n",
					id, id, nm, id, nm, id, nm, pe, id, id, id, nm, id)
			case "rangeread":
				// the result is consumed character by character by a range loop whose body calls a
				// function with two results; what the loop collects is the content
				fmt.Fprintf(&sb, "func tw%d(c%d string) (string, string) {\nreturn c%d, \"x\"\n}\nrr%d := \"\"\nfor ri%d, rc%d := range read(%s) {\nra%d, rb%d := tw%d(rc%d)\nrr%d = rr%d + ra%d\nif ri%d < 0 {\nprint(rb%d)\n}\n}\n",
					id, id, id, id, id, id, pe, id, id, id, id, id, id, id, id, id)
			case "shared":
				usesShared = true
				fmt.Fprintf(&sb, "rr%d := shr(%s)\n", id, pe)
			case "funcparam", "funcglobal":
				fmt.Fprintf(&sb, "func fn%d(%s string) string {\nx%d := read(%s)\nreturn x%d\n}\nrr%d := fn%d(%s)\n", id, pn, id, pn, id, id, id, pe)
			case "if":
				fmt.Fprintf(&sb, "%s := %s\nvar rr%d string\nif true {\nrr%d = read(%s)\n}\n", pn, pe, id, id, pn)
			case "for":
				fmt.Fprintf(&sb, "%s := %s\nvar rr%d string\nfor it%d := 0; it%d < 1; it%d++ {\nrr%d = read(%s)\n}\n", pn, pe, id, id, id, id, id, pn)
			default:
				fmt.Fprintf(&sb, "%s := %s\nrr%d := read(%s)\n", pn, pe, id, pn)
			}
			fmt.Fprintf(&sb, "print(\"<<R%d>>\" + rr%d + \"<<E%d>>\")\n", id, id, id)
			want := m.Files[op.Path]
			// read(p) is specified for what write() produced: the content without its final newline.
			// When the file ends with an empty line (an empty or newline-terminated content was
			// written, or another tool created it that way) the property does not say what read
			// returns, so the result is not compared; the bytes on disk still are.
			if strings.HasSuffix(want, "\n\n") || want == "\n" {
				cur.Expect = append(cur.Expect, c17Expect{ID: id, Kind: "read-unspecified", Op: op})
			} else {
				want = strings.TrimSuffix(want, "\n")
				cur.Expect = append(cur.Expect, c17Expect{ID: id, Kind: "read", Want: want, Op: op})
			}
			cur.OpIdx = append(cur.OpIdx, i)
		case "exists":
			var pre strings.Builder
			pe := operand(id, "p", op.POrigin, op.spelled(), &pre)
			pn := fmt.Sprintf("ep%d", id)
			sb.WriteString(pre.String())
			if op.Comp == "thenmod" {
				var pre2 strings.Builder
				ce := operand(id, "c", op.COrigin, op.Content, &pre2)
				sb.WriteString(pre2.String())
				fmt.Fprintf(&sb, "func gm%d(gp%d string) bool {\nwrite(gp%d, %s)\nreturn true\n}\nfunc gf%d(ga%d bool, gb%d bool) bool {\nreturn ga%d\n}\n", id, id, id, ce, id, id, id, id)
				expr := fmt.Sprintf("gf%d(exists(%s), gm%d(%s))", id, pe, id, pe)
				if strings.HasPrefix(op.Render, "func") || op.Render == "nested" {
					fmt.Fprintf(&sb, "func gw%d() bool {\nreturn %s\n}\n", id, expr)
					expr = fmt.Sprintf("gw%d()", id)
				}
				fmt.Fprintf(&sb, "ee%d := %s\nprint(\"<<X%d>>\", ee%d, \"<<E%d>>\")\n", id, expr, id, id, id)
				_, isF := m.Files[op.Path]
				cur.Expect = append(cur.Expect, c17Expect{ID: id, Kind: "exists", Want: map[bool]string{true: "1", false: "0"}[isF], Op: op})
				m.Files[op.Path] = op.Content + "\n"
				cur.OpIdx = append(cur.OpIdx, i)
				continue
			}
			if op.Render == "guard2" {
				body, isFile := m.Files[pathpkg.Clean(op.Path)]
				body = strings.TrimSuffix(body, "\n")
				if !isFile || op.Spell == "slash" || op.Spell == "slashdot" || op.Spell == "ghost" || len(body) > 200 || strings.ContainsAny(body, "\"$`\\\n") || strings.HasSuffix(m.Files[pathpkg.Clean(op.Path)], "\n\n") || m.Files[pathpkg.Clean(op.Path)] == "\n" || !strings.HasSuffix(m.Files[pathpkg.Clean(op.Path)], "\n") {
					op.Render = "direct"
				} else {
					// exists guards a read, twice in ONE statement, as sibling operands with different
					// truth values (both operands of && and || are evaluated: the file exists)
					lit := tshLit(nil, body)
					fmt.Fprintf(&sb, "func gf%d(ga%d bool, gb%d bool, gc%d bool) bool {\nreturn ga%d && !gb%d && gc%d\n}\n", id, id, id, id, id, id, id)
					fmt.Fprintf(&sb, "ee%d := gf%d(exists(%s) && read(%s) == %s, exists(%s) && read(%s) == %s + \"?\", !exists(%s) || read(%s) == %s)\n", id, id, pe, pe, lit, pe, pe, lit, pe, pe, lit)
				}
			}
			switch op.Render {
			case "guard2":
			case "direct", "fordirect":
				fmt.Fprintf(&sb, "ee%d := exists(%s)\n", id, pe)
			case "funcdirect":
				fmt.Fprintf(&sb, "func fn%d() bool {\nreturn exists(%s)\n}\nee%d := fn%d()\n", id, pe, id, id)
			case "ifdirect":
				fmt.Fprintf(&sb, "var ee%d bool\nif true {\nee%d = exists(%s)\n}\n", id, id, pe)
			case "shared":
				usesShared = true
				fmt.Fprintf(&sb, "ee%d := she(%s)\n", id, pe)
			case "funcparam", "funcglobal":
				fmt.Fprintf(&sb, "func fn%d(%s string) bool {\nreturn exists(%s)\n}\nee%d := fn%d(%s)\n", id, pn, pn, id, id, pe)
			case "if":
				fmt.Fprintf(&sb, "%s := %s\nvar ee%d bool\nif true {\nee%d = exists(%s)\n}\n", pn, pe, id, id, pn)
			default:
				fmt.Fprintf(&sb, "%s := %s\nee%d := exists(%s)\n", pn, pe, id, pn)
			}
			fmt.Fprintf(&sb, "print(\"<<X%d>>\", ee%d, \"<<E%d>>\")\n", id, id, id)
			q := op.Path
			if op.Spell == "ghost" {
				q = "no-such-dir/ghost" // the kernel fails at the missing directory
			}
			if op.Spell == "slash" || op.Spell == "slashdot" {
				q += "/"
			}
			needDir := strings.HasSuffix(q, "/") || strings.HasSuffix(q, "/.")
			q = pathpkg.Clean(q)
			_, isF := m.Files[q]
			want := "0"
			if q == "." || m.Dirs[q] || (isF && !needDir) {
				want = "1"
			}
			cur.Expect = append(cur.Expect, c17Expect{ID: id, Kind: "exists", Want: want, Op: op})
			cur.OpIdx = append(cur.OpIdx, i)
		}
	}
	flush()
	return segs
}

// ---------------------------------------------------------------- execution

type c17Stats struct {
	histories  int
	scripts    int
	ops        int
	states     map[string]bool
	tuples     map[string]bool
	restarts   int
	byPop      map[string]int
	featSeen   map[string]int
	samples    []any
	obsChecked int
	treeChecks int
}

func readTree(dir string) (map[string]string, map[string]bool, error) {
	files, dirs := map[string]string{}, map[string]bool{}
	err := filepath.WalkDir(dir, func(p string, d fs.DirEntry, err error) error {
		if err != nil {
			return err
		}
		rel, _ := filepath.Rel(dir, p)
		if rel == "." {
			return nil
		}
		if d.IsDir() {
			dirs[rel] = true
			return nil
		}
		b, err := os.ReadFile(p)
		if err != nil {
			return err
		}
		files[rel] = string(b)
		return nil
	})
	return files, dirs, err
}

const bashWatchdog = 60 * time.Second

// c17Run executes one history and judges it. It returns ("", "") when the
// model and the real execution agree; otherwise a failure kind and detail.
func c17Run(r *Run, h *c17Hist, seed uint64, st *c17Stats) (string, string, error) {
	return c17RunX(r, h, seed, st, nil)
}

// heredocRe finds the delimiter words of here-documents in an emitted script.
var hoistRe = regexp.MustCompile("(?s)\x01(.*?)\x02")

var heredocRe = regexp.MustCompile("<<-?[ \\t]*\\\\?['\"]?([A-Za-z_][A-Za-z0-9_]*)")

// harvestDelims returns the here-document delimiters the script uses (the harness' own
// "<<R1>>"-style markers are not here-documents).
func harvestDelims(script string) []string {
	seen := map[string]bool{}
	for _, m := range heredocRe.FindAllStringSubmatchIndex(script, -1) {
		if strings.HasPrefix(script[m[1]:], ">>") {
			continue
		}
		seen[script[m[2]:m[3]]] = true
	}
	return sortedKeys(seen)
}

// c17RunX is c17Run; with harvest != nil it also collects words of the emitted scripts that
// delimit something (feedback for a second, derived history).
func c17RunX(r *Run, h *c17Hist, seed uint64, st *c17Stats, harvest *[]string) (string, string, error) {
	segs := h.render(seed)
	// transpile all segments through the worker (real transpiler, MemFS)
	cases := make([]simrt.Case, len(segs))
	for i, s := range segs {
		cases[i] = simrt.Case{World: simrt.WorldSpec{Files: []simrt.FileSpec{{Path: "/sim/m/main.tsh", Data: []byte(s.Program)}, {Path: "/sim/x/tsh", Data: []byte("ELF")}}, Cwd: "/sim/m", Exe: "/sim/x/tsh"},
			Path: "/sim/m/main.tsh", Target: "bash", ReturnScript: true}
		for _, rel := range sortedKeys(s.Modules) {
			cases[i].World.Files = append(cases[i].World.Files, simrt.FileSpec{Path: "/sim/m/" + rel, Data: []byte(s.Modules[rel])})
		}
		// every third history: the transpiler object has just emitted the same program for the
		// other target (tsh -i x.tsh -t batch -t bash, the README's first command)
		if seed%3 == 0 {
			cases[i].Warmup = []string{"batch"}
		}
	}
	res, err := r.Env.RunCases(cases)
	if err != nil {
		return "", "", err
	}
	dir, err := os.MkdirTemp(filepath.Join(r.Env.Dir, "io"), "fs")
	if err != nil {
		return "", "", machinery("mktemp: %v", err)
	}
	defer os.RemoveAll(dir)
	priv := filepath.Join(dir, "w")
	os.MkdirAll(priv, 0o755)
	for si, s := range segs {
		if res[si].Kind != "script" || res[si].Script == nil {
			return "rejected", fmt.Sprintf("segment %d: the transpiler answered %s %q for a well-formed program", si, res[si].Kind, res[si].Err+res[si].PanicMsg), nil
		}
		for _, op := range s.Pre {
			p := filepath.Join(priv, op.Path)
			switch op.Kind {
			case "ext-mkdir":
				os.MkdirAll(p, 0o755)
			case "ext-create":
				if err := os.WriteFile(p, []byte(op.Content), 0o644); err != nil {
					return "", "", machinery("ext-create %q: %v", op.Path, err)
				}
			case "ext-delete":
				os.Remove(p)
			}
		}
		for _, name := range sortedKeys(s.Seeds) {
			if err := os.WriteFile(filepath.Join(priv, name), []byte(s.Seeds[name]), 0o644); err != nil {
				return "", "", machinery("seed: %v", err)
			}
		}
		if harvest != nil {
			*harvest = append(*harvest, harvestDelims(string(*res[si].Script))...)
		}
		script := filepath.Join(dir, fmt.Sprintf("s%d.sh", si))
		if err := os.WriteFile(script, []byte(*res[si].Script), 0o755); err != nil {
			return "", "", machinery("%v", err)
		}
		var so, se bytes.Buffer
		// A script that spins (e.g. a loop whose exit test was broken by the emitted
		// quoting) is stopped by a CPU-time limit, which does not depend on machine
		// load, and judged as "script-hangs". The wall-clock watchdog is only a
		// safety net and leads to a machinery error, never to a verdict.
		ctx, cancel := context.WithTimeout(context.Background(), bashWatchdog)
		cmd := exec.CommandContext(ctx, "/bin/bash", "-c", `ulimit -t 6; ulimit -n 256; exec /bin/bash "$0"`, script)
		cmd.Dir = priv
		cmd.Env = []string{"PATH=/usr/local/bin:/usr/bin:/bin", "LC_ALL=C.UTF-8", "HOME=/nonexistent/home of the c17 user", "USER=c17", "TMPDIR=/nonexistent/tmp of the c17 user"}
		cmd.Stdout, cmd.Stderr = &limitedWriter{w: &so, n: 32 << 20}, &limitedWriter{w: &se, n: 4096}
		cmd.Stdin = strings.NewReader("")
		cmd.SysProcAttr = &syscall.SysProcAttr{Setpgid: true}
		cmd.Cancel = func() error { return syscall.Kill(-cmd.Process.Pid, syscall.SIGKILL) }
		cmd.WaitDelay = 2 * time.Second
		runErr := cmd.Run()
		timedOut := ctx.Err() != nil
		cancel()
		if timedOut {
			return "", "", machinery("bash wall-clock watchdog (%v) expired", bashWatchdog)
		}
		if ee, ok := runErr.(*exec.ExitError); ok {
			if ws, ok := ee.Sys().(syscall.WaitStatus); ok && ws.Signaled() && (ws.Signal() == syscall.SIGXCPU || ws.Signal() == syscall.SIGKILL) {
				return "script-hangs", fmt.Sprintf("segment %d: the script used more than 6 s of CPU time (%v) and was stopped; stderr: %s", si, ws.Signal(), firstLines(se.String(), 2)), nil
			}
		}
		r.Env.procs.Add(1)
		if st != nil {
			st.scripts++
		}
		out := so.String()
		// observations
		for _, ex := range s.Expect {
			if ex.Kind == "read-unspecified" {
				continue
			}
			var open string
			if ex.Kind == "read" {
				open = fmt.Sprintf("<<R%d>>", ex.ID)
			} else {
				open = fmt.Sprintf("<<X%d>> ", ex.ID)
			}
			closeM := fmt.Sprintf("<<E%d>>", ex.ID)
			if ex.Kind == "exists" {
				closeM = " " + closeM
			}
			a := strings.Index(out, open)
			b := strings.Index(out, closeM)
			if st != nil {
				st.obsChecked++
			}
			if a < 0 || b < a {
				return ex.Kind + "-result-missing", fmt.Sprintf("op %d %s(%q): no result printed (stderr: %s)", ex.ID, ex.Kind, ex.Op.Path, firstLines(se.String(), 2)), nil
			}
			got := out[a+len(open) : b]
			if got != ex.Want {
				return ex.Kind + "-mismatch", fmt.Sprintf("op %d %s(%q): script returned %q, model says %q (stderr: %s)", ex.ID, ex.Kind, ex.Op.Path, got, ex.Want, firstLines(se.String(), 2)), nil
			}
		}
		if !strings.Contains(out, "<<END>>") {
			return "script-did-not-finish", fmt.Sprintf("segment %d: end marker missing, exit=%v stderr=%s", si, runErr, firstLines(se.String(), 2)), nil
		}
		// tree
		files, dirs, err := readTree(priv)
		if err != nil {
			return "", "", machinery("read tree: %v", err)
		}
		if st != nil {
			st.treeChecks++
			st.states[shortHash(fmt.Sprint(sortedKeys(s.After.Files), s.After.Files))] = true
		}
		for _, p := range sortedKeys(s.After.Files) {
			got, ok := files[p]
			if !ok {
				return "tree-file-missing", fmt.Sprintf("after script %d: %q should hold %q but does not exist; directory has %v", si, p, s.After.Files[p], sortedKeys(files)), nil
			}
			if got != s.After.Files[p] {
				return "tree-wrong-content", fmt.Sprintf("after script %d: %q holds %q, model says %q", si, p, got, s.After.Files[p]), nil
			}
		}
		for _, p := range sortedKeys(files) {
			if _, ok := s.After.Files[p]; !ok {
				return "tree-unexpected-file", fmt.Sprintf("after script %d: unexpected file %q holding %q (writing touched another path); model has %v", si, p, tail(files[p], 80), sortedKeys(s.After.Files)), nil
			}
		}
		for p := range dirs {
			if !s.After.Dirs[p] {
				return "tree-unexpected-dir", fmt.Sprintf("after script %d: unexpected directory %q", si, p), nil
			}
		}
	}
	return "", "", nil
}

func checkC17(r *Run) error {
	rng := gen.NewRng(r.Seed)
	st := &c17Stats{states: map[string]bool{}, tuples: map[string]bool{}, byPop: map[string]int{}, featSeen: map[string]int{}}
	batch := 384 // (large enough to hide the few histories that take seconds behind the many that take milliseconds)
	rounds := 0
	if _, err := os.Stat("/bin/bash"); err != nil {
		return machinery("/bin/bash not available")
	}
	for r.Left() > 0 {
		hs := make([]*c17Hist, batch)
		seeds := make([]uint64, batch)
		for i := range hs {
			pop := "base"
			if i%2 == 1 {
				pop = "extended"
			}
			hs[i] = c17Gen(rng.Sub(), pop)
			seeds[i] = rng.U64()
		}
		// histories with a large value first: they run while the workers chew through the rest
		sort.SliceStable(hs, func(a, b int) bool { return hs[a].maxContent() > 4096 && hs[b].maxContent() <= 4096 })
		kinds := make([]string, batch)
		details := make([]string, batch)
		errs := make([]error, batch)
		tp := time.Now()
		cfPass := make([]bool, batch)
		parallel(batch, r.Env.Workers, func(i int) {
			var delims []string
			kinds[i], details[i], errs[i] = c17RunX(r, hs[i], seeds[i], nil, &delims)
			if errs[i] == nil && kinds[i] == "" && len(delims) > 0 {
				// feedback from the emitted text: the script delimits embedded data with these words,
				// so the same history is run again with exactly these words as contents
				d := hs[i].withContents(delims)
				if k, det, err := c17Run(r, d, seeds[i], nil); err == nil && k != "" {
					hs[i], kinds[i], details[i] = d, k, det
				}
			}
			if errs[i] == nil && kinds[i] != "" {
				// counterfactual for the literal-quoting finding, computed here so that it runs in parallel
				if lit := hs[i].literalQuoteFeatures(); len(lit) > 0 {
					c := hs[i]
					for _, f := range lit {
						c = c.neutralise(f)
					}
					if k, _, err := c17Run(r, c, seeds[i], nil); err == nil && k == "" && c.valid() {
						cfPass[i] = true
					}
				}
			}
		})
		if os.Getenv("VERIF_DEBUG") != "" {
			fmt.Fprintf(os.Stderr, "c17 round %d: parallel phase %.2fs\n", rounds, time.Since(tp).Seconds())
			defer func(t time.Time, n int) { fmt.Fprintf(os.Stderr, "c17 round %d total %.2fs\n", n, time.Since(t).Seconds()) }(tp, rounds)
		}
		for i, h := range hs {
			if errs[i] != nil {
				return errs[i]
			}
			st.histories++
			st.byPop[h.Population]++
			nseg := 1
			for _, op := range h.Ops {
				if op.Kind == "cut" {
					nseg++
				}
				switch op.Kind {
				case "cut", "ext-mkdir", "ext-create", "ext-delete":
				default:
					st.ops++
					pc, cc := "neutral", "neutral"
					for _, f := range c17CharFeatures {
						if f.Has(op.Path) {
							pc = f.Name
						}
						if op.Content != "" && f.Has(op.Content) {
							cc = f.Name
						}
					}
					st.tuples[op.Kind+"|"+op.Render+"|"+op.POrigin+"|"+pc+"|"+cc+"|"+op.COrigin] = true
				}
			}
			st.scripts += nseg
			if nseg > 1 {
				st.restarts++
			}
			for _, sg := range h.render(seeds[i]) {
				st.obsChecked += len(sg.Expect)
				st.treeChecks++
				st.states[shortHash(fmt.Sprint(sortedKeys(sg.After.Files), sg.After.Files))] = true
			}
			for _, f := range h.features() {
				st.featSeen[f]++
			}
			if len(st.samples) < 4 && st.histories%37 == 1 {
				segs := h.render(seeds[i])
				st.samples = append(st.samples, map[string]any{"population": h.Population, "ops": h.Ops, "first_program": tail(segs[0].Program, 1200), "scripts": len(segs), "result": kinds[i]})
			}
			if kinds[i] != "" && len(r.Viol) < 6 && (len(r.Viol) == 0 || c17FullMinimisations < 24) {
				// (a change that breaks most histories would otherwise have hundreds of them minimised one by
				// one; attributions to a listed finding by counterfactual are not counted)
				c17Report(r, h, seeds[i], kinds[i], details[i], cfPass[i])
			}
		}
		rounds++
		if len(r.Viol) >= 6 {
			break
		}
	}
	wall := time.Since(r.Start).Seconds()
	cov := map[string]any{
		"evaluations":         st.histories,
		"distinct_nontrivial": len(st.tuples),
		"rule": "one evaluation = one operation history (1-25 write/append/read/exists operations over 3-5 paths, cut into 1-3 scripts run one after another in the same private directory) rendered to TypeShell, transpiled by the real transpiler and executed by the real /bin/bash; " +
			"every history is non-trivial (>= 1 operation checked against the model and a byte-for-byte tree comparison after every script); distinct = distinct (operation kind, rendering, path origin, path class, content class, content origin) tuples",
		"samples":    st.samples,
		"exhaustive": false,
		"operations": st.ops,
		"distinct_model_states": len(st.states),
		"observations_compared": st.obsChecked,
		"tree_comparisons":      st.treeChecks,
	}
	extra := map[string]any{
		"rounds": rounds, "runs_per_hour": int(float64(st.histories) / wall * 3600),
		"seeds":             map[string]any{"VERIF_SEED": r.Seed},
		"scripts_executed":  st.scripts,
		"histories_with_restart_between_scripts": st.restarts,
		"by_population":     st.byPop,
		"features_seen":     st.featSeen,
		"sim_steps":         "not applicable to engine B: the emitted script runs under the real bash; simulated time = number of operations in the history",
		"faults":            "none injected, on purpose: the property states no behaviour under I/O errors (DESIGN §4.3); the explored dimensions are history x rendering x alphabet class x restart points",
		"components": map[string]any{
			"real":    []string{"lexer, parser, transpiler, bash converter (instrumented copy, through the worker)", "/bin/bash, cat and the kernel file system in a private temporary directory"},
			"stubbed": []string{"nothing at run time of the script; the reference model is an in-memory map path -> bytes"},
		},
	}
	return r.WriteEvidence(cov, extra, []string{
		"excluded as unspecified: empty contents, contents ending in a newline, read of a missing path, writes into missing directories",
		"print with a non-dash marker prefix reproduces a variable's value faithfully (echo without -e)",
		"a failing extended-population history is attributed to a known finding only through the counterfactual: it must pass once exactly the listed features are neutralised",
	}, "exploration")
}

// sharedModule is the source of a module that offers the shared line-store functions; sfx is
// appended to every path (the twin module works on other files).
func sharedModule(sfx string) string {
	return "func Shw(shp string, shs string, sha bool) {\nwrite(shp" + sfx + ", shs, sha)\n}\nfunc Shw2(shp string, shs string) {\nwrite(shp" + sfx + ", shs)\n}\n" +
		"func Shr(shp string) string {\nshx := read(shp" + sfx + ")\nreturn shx\n}\nfunc She(shp string) bool {\nreturn exists(shp" + sfx + ")\n}\n"
}

func (h *c17Hist) maxContent() int {
	n := 0
	for _, op := range h.Ops {
		n = max(n, len(op.Content))
	}
	return n
}

// withContents returns a copy of the history in which the written contents are, in turn, the
// given words (alone, and as the middle line of three).
func (h *c17Hist) withContents(words []string) *c17Hist {
	c := &c17Hist{Population: "extended", Ops: append([]c17Op{}, h.Ops...)}
	k := 0
	for i := range c.Ops {
		op := &c.Ops[i]
		switch op.Kind {
		case "write", "writeF", "append", "appendVar":
			if op.COrigin == "readof" {
				continue
			}
			w := words[k%len(words)]
			if k/len(words)%2 == 1 {
				w = "before\n" + w + "\nafter"
			}
			op.Content = w
			if k%3 != 2 {
				op.COrigin = "literal"
			}
			k++
		}
	}
	return c
}

// c17Report minimises a failing history (ops, then features) and reports it.
var c17FullMinimisations int

func c17Report(r *Run, h *c17Hist, seed uint64, kind, detail string, cfPass bool) {
	fails := func(c *c17Hist) (bool, string, string) {
		if !c.valid() {
			return false, "", ""
		}
		k, d, err := c17Run(r, c, seed, nil)
		if err != nil {
			return false, "", ""
		}
		return k != "", k, d
	}
	// fast path: a failure that disappears once the features named by a known
	// finding are neutralised (counterfactual) is attributed to that finding
	// without a full minimisation
	if lit := h.literalQuoteFeatures(); len(lit) > 0 && cfPass {
		v := &Violation{Prop: "C17", Class: "ext[" + strings.Join(lit, ",") + "]: " + kind, Kind: "script",
			Detail: detail + " | passes once the quote characters arrive at run time instead of through a literal",
			Plan:   jsonOf(map[string]any{"history": h, "render_seed": seed})}
		if r.Known.Match(v) != nil {
			r.Report(v)
			return
		}
	}
	if lit := h.literalQuoteFeatures(); len(lit) > 0 && !cfPass {
		// the history still fails once the literal-quoting features are neutralised:
		// judge that residual failure, so that a listed finding cannot mask another defect
		c := h
		for _, f := range lit {
			c = c.neutralise(f)
		}
		if bad, k2, d2 := fails(c); bad {
			h, kind, detail = c, k2, d2
		}
	}
	c17FullMinimisations++
	cur := h
	// 1. fewer operations (any failure counts: the class is decided afterwards by the necessary features)
	budget := 120
	// candidates must fail in the same way (same failure kind): a subset that fails for
	// another reason (e.g. a listed finding) must not hijack the minimisation
	// (a probe of a history with very large contents costs seconds: it is charged accordingly,
	// so that the minimisation stays bounded — deterministically, not by the wall clock)
	extra := 240
	sameKind := func(c *c17Hist) bool {
		cost := 0
		for _, op := range c.Ops {
			cost += len(op.Content) / 4000
		}
		if kind == "script-hangs" {
			cost += 40 // (a script that spins by forking sub-shells reaches its CPU limit only after many seconds of wall time)
		}
		budget -= cost
		extra -= 1 + cost
		if extra <= 0 {
			return false
		}
		f, k, _ := fails(c)
		return f && k == kind
	}
	// 0. a large content that need not be large
	for i := range cur.Ops {
		if len(cur.Ops[i].Content) > 4096 {
			c := &c17Hist{Population: cur.Population, Ops: append([]c17Op{}, cur.Ops...)}
			c.Ops[i].Content = c.Ops[i].Content[:40]
			if sameKind(c) {
				cur = c
			}
		}
	}
	ops := ddmin(cur.Ops, func(cand []c17Op) bool {
		return sameKind(&c17Hist{Population: cur.Population, Ops: cand})
	}, &budget)
	cur = &c17Hist{Population: h.Population, Ops: ops}
	// 2. simplify renderings and origins
	for i := range cur.Ops {
		for _, simp := range []func(*c17Op){
			func(o *c17Op) { o.Render = "direct" },
			func(o *c17Op) { o.Count = 0 },
			func(o *c17Op) {
				if o.Kind == "read" && o.Comp != "thenmod" {
					o.Comp, o.Path2 = "", ""
				}
			},
			func(o *c17Op) {
				if o.POrigin != "" && o.POrigin != "runtime" {
					o.POrigin = "literal"
				}
			},
			func(o *c17Op) {
				if o.COrigin != "" && o.COrigin != "runtime" {
					o.COrigin = "literal"
				}
			},
		} {
			c := &c17Hist{Population: cur.Population, Ops: append([]c17Op{}, cur.Ops...)}
			simp(&c.Ops[i])
			if sameKind(c) {
				cur = c
			}
		}
	}
	// 3. counterfactual: neutralise every feature that is not needed for the failure
	for _, f := range cur.features() {
		c := cur.neutralise(f)
		if sameKind(c) {
			cur = c
		}
	}
	_, k2, d2 := fails(cur)
	if k2 == "" {
		k2, d2, cur = kind, detail, h
	}
	need := cur.features()
	class := k2
	if len(need) == 0 {
		class = "base: " + k2
	} else {
		class = "ext[" + strings.Join(need, ",") + "]: " + k2
	}
	opsDesc := []string{}
	for _, op := range cur.Ops {
		if op.Kind == "ext-mkdir" {
			continue
		}
		opsDesc = append(opsDesc, fmt.Sprintf("%s(%q,%q)", op.Kind, op.Path, op.Content))
	}
	sort.Strings(need)
	v := &Violation{Prop: "C17", Class: class, Kind: "script", Min: true,
		Detail: fmt.Sprintf("%s | minimised history: %s | necessary features: %v", d2, strings.Join(opsDesc, " ; "), need),
		Plan:   jsonOf(map[string]any{"history": cur, "render_seed": seed})}
	r.Report(v)
}

func replayC17(r *Run, v *Violation) (bool, string, error) {
	var p struct {
		History    c17Hist `json:"history"`
		RenderSeed uint64  `json:"render_seed"`
	}
	if err := json.Unmarshal(v.Plan, &p); err != nil {
		return false, "", machinery("bad replay plan: %v", err)
	}
	k, d, err := c17Run(r, &p.History, p.RenderSeed, nil)
	if err != nil {
		return false, "", err
	}
	if k != "" {
		return true, k + ": " + d, nil
	}
	return false, "no violation on replay", nil
}


var genIdentRe = regexp.MustCompile(`^(fn|fi|wp|wc|rp|ep|rr|ee|x|pv|cv|pr|cr|fl|it|q|v|w|u)[0-9]+$`)

// renameIdentifiers replaces the renderer's own identifiers (role + number)
// outside string literals by names from the theme, consistently.
func renameIdentifiers(prog string, m map[string]string, theme []string, rng *gen.Rng) string {
	used := map[string]bool{}
	for _, v := range m {
		used[v] = true
	}
	var out strings.Builder
	i := 0
	for i < len(prog) {
		c := prog[i]
		switch {
		case c == '"':
			j := i + 1
			for j < len(prog) && prog[j] != '"' {
				if prog[j] == '\\' {
					j++
				}
				j++
			}
			out.WriteString(prog[i:min(j+1, len(prog))])
			i = j + 1
		case c == '`':
			j := i + 1
			for j < len(prog) && prog[j] != '`' {
				j++
			}
			out.WriteString(prog[i:min(j+1, len(prog))])
			i = j + 1
		case c == '_' || c >= 'a' && c <= 'z' || c >= 'A' && c <= 'Z':
			j := i
			for j < len(prog) && (prog[j] == '_' || prog[j] >= 'a' && prog[j] <= 'z' || prog[j] >= 'A' && prog[j] <= 'Z' || prog[j] >= '0' && prog[j] <= '9') {
				j++
			}
			id := prog[i:j]
			if genIdentRe.MatchString(id) {
				n, ok := m[id]
				if !ok {
					n = id
					list := []string{}
					for _, k := range sortedKeys(used) {
						list = append(list, k)
					}
					if d := gen.DeriveName(rng, list); d != "" && !used[d] && rng.Chance(45) && !strings.HasPrefix(d, "_") {
						n = d
					} else {
						for try := 0; try < 6; try++ {
							cand := theme[rng.Intn(len(theme))]
							if !used[cand] {
								n = cand
								break
							}
						}
					}
					used[n] = true
					m[id] = n
				}
				id = n
			}
			out.WriteString(id)
			i = j
		default:
			out.WriteByte(c)
			i++
		}
	}
	return out.String()
}

package main

import (
	"crypto/sha256"
	"encoding/hex"
	"encoding/json"
	"fmt"
	"path"
	"sort"
	"strings"
	"time"

	"verifsim/gen"
	"verifsim/simrt"
)

// C14 — transpilation is a pure, repeatable function of (content of the import
// closure, relative layout, target). One run = one history of Transpile calls
// and environment changes in one fresh worker process; all executions with
// the same key must give the same answer.

// symbolic history: robust under deletion of steps (paths are computed when
// the history is materialised).
type c14Step struct {
	Kind string `json:"kind"` // T | edit | decoy | relink | move | chdir | epoch

	// T
	Prog     int          `json:"prog,omitempty"`
	Target   string       `json:"target,omitempty"`
	Obj      int          `json:"obj,omitempty"`
	MapMode  string       `json:"map_mode,omitempty"`
	MapSeed  uint64       `json:"map_seed,omitempty"`
	Spelling string       `json:"spelling,omitempty"` // abs | rel | unclean
	ExtraConv string      `json:"extra_conv,omitempty"` // a converter of this target is constructed and left unused right before the call
	Decoys   []c14DecoyEv `json:"decoy_events,omitempty"`

	// edit: set file Rel to version Version (0 = original)
	Rel       string `json:"rel,omitempty"`
	Version   int    `json:"version,omitempty"`
	KeepMtime bool   `json:"keep_mtime,omitempty"`

	// relink: the closure file Rel becomes a symbolic link to a copy of its current bytes kept
	// outside the tree (AsLink), or a regular file again: same bytes at the same relative path
	AsLink bool `json:"as_link,omitempty"`

	// decoy: rewrite decoy file between calls
	Decoy int         `json:"decoy,omitempty"`
	Data  simrt.Bytes `json:"data,omitempty"`
	Gone  bool        `json:"gone,omitempty"` // the decoy file is removed (it comes back with the next decoy write)

	// move: relocate the mount or the executable directory
	What string `json:"what,omitempty"` // mount | exe
	To   string `json:"to,omitempty"`

	// chdir
	Where string `json:"where,omitempty"` // mount | parent | root | maindir | elsewhere

	Jump int64 `json:"jump,omitempty"`
}

type c14DecoyEv struct {
	AtSeq int         `json:"at_seq"`
	Decoy int         `json:"decoy"`
	Data  simrt.Bytes `json:"data"`
}

type c14Hist struct {
	Files    []gen.WFile          `json:"files"`    // mount-relative
	Versions map[string][]string  `json:"versions"` // rel -> alternative contents (version k = Versions[rel][k-1])
	Progs    []string             `json:"progs"`    // mount-relative main files
	Closures map[string][]string  `json:"closures"` // prog -> closure (generator's notion)
	StdUsed  map[string][]string  `json:"std_used"`
	Decoys   []string             `json:"decoys"`
	Ghosts   []string             `json:"ghosts,omitempty"` // names an import of a std library looks at FIRST and that do not exist: closure members whose normal state is "absent"
	Wide     bool                 `json:"wide,omitempty"` // the world holds 40-70 programs that import a module each
	Long     bool                 `json:"long,omitempty"` // the world holds fill.tsh and probe0..2.tsh, and the history ends with some hundred calls
	Twins    bool                 `json:"twins,omitempty"` // the world holds tw/one/util.tsh and tw/two/util.tsh with the same bytes
	Mount0   string               `json:"mount0"`
	Exe0     string               `json:"exe0"`
	Steps    []c14Step            `json:"steps"`
	Epoch    int64                `json:"epoch"`
}

type c14Key struct {
	Key   string // oracle A key
	KeyD  string // oracle D key: the whole tree relative to the mount (decoys included)
	Prog  string
	Mount string
	Exe   string
}

// removableDecoy: a file nobody imports may vanish without consequence, unless its name is
// that of a std library (then the resolution rule of the unchanged code does look at it).
func removableDecoy(rel string) bool {
	b := strings.ToLower(path.Base(rel))
	b = strings.TrimSuffix(b, path.Ext(b))
	return b != "strings" && b != "os"
}

// collidingPair searches (birthday search over two families of one-function files, about 2 x 32 000
// candidates) two different valid library files whose SHA-256 digests share the first seven hex digits.
func collidingPair(seed uint64) (string, string) {
	mkA := func(i int) string { return fmt.Sprintf("// settings %d/%d\nfunc Retries() int {\n\treturn %d\n}\n", seed%9973, i, i%1000) }
	mkB := func(i int) string { return fmt.Sprintf("// limits %d/%d\nfunc Limit() int {\n\treturn %d\n}\n", seed%9973, i, i%1000) }
	key := func(s string) uint32 {
		d := sha256.Sum256([]byte(s))
		return uint32(d[0])<<20 | uint32(d[1])<<12 | uint32(d[2])<<4 | uint32(d[3])>>4
	}
	seenA, seenB := map[uint32]int{}, map[uint32]int{}
	for i := 0; i < 400000; i++ {
		ka, kb := key(mkA(i)), key(mkB(i))
		seenA[ka], seenB[kb] = i, i
		if j, ok := seenB[ka]; ok {
			return mkA(i), mkB(j)
		}
		if j, ok := seenA[kb]; ok {
			return mkA(j), mkB(i)
		}
	}
	return mkA(0), mkB(0)
}

func sha(b []byte) string {
	h := sha256.Sum256(b)
	return hex.EncodeToString(h[:8])
}

// materialise turns the symbolic history into a concrete worker history and
// computes, per concrete step, the oracle-A key of transpile steps.
func (h *c14Hist) materialise(env *Env) (*simrt.History, []*c14Key) {
	mount, exe := h.Mount0, h.Exe0
	cwd := mount
	content := map[string][]byte{}
	symlinked := map[string]bool{} // closure files that are symbolic links at this point of the history
	for _, f := range h.Files {
		content[f.Rel] = f.Data
	}
	files := []simrt.FileSpec{}
	for _, f := range h.Files {
		files = append(files, simrt.FileSpec{Path: path.Join(mount, f.Rel), Data: f.Data})
	}
	files = append(files, simrt.FileSpec{Path: path.Join(exe, "tsh"), Data: []byte("ELF")})
	for _, n := range sortedKeys(env.Std) {
		files = append(files, simrt.FileSpec{Path: path.Join(exe, "std", n), Data: env.Std[n]})
	}
	// an unrelated working directory that holds entries named like the things programs
	// import: nothing may ever be resolved against the working directory
	files = append(files, simrt.FileSpec{Path: "/elsewhere/dir", Dir: true},
		simrt.FileSpec{Path: "/elsewhere/dir/strings", Dir: true},
		simrt.FileSpec{Path: "/elsewhere/dir/os", Data: []byte("func Shell() string {\n\treturn \"cwd\"\n}\n")},
		simrt.FileSpec{Path: "/elsewhere/dir/strings.tsh", Data: []byte("func Contains(a string, b string) bool {\n\treturn false\n}\n")},
		simrt.FileSpec{Path: "/elsewhere/dir/std/strings.tsh", Data: []byte("func Contains(a string, b string) bool {\n\treturn false\n}\n")})
	// directories ABOVE the places the tree is mounted at hold a std directory of their own (the
	// tree may sit inside a checkout of another TypeShell version): only the std directory next
	// to the executable is the standard library
	for _, anc := range []string{"/w", "/srv/a", "/home/u", "/tmp"} {
		// (other bytes above every place, and no std directory above some places)
		files = append(files, simrt.FileSpec{Path: path.Join(anc, "std/strings.tsh"), Data: []byte(fmt.Sprintf("func Contains(a string, b string) bool {\n\treturn false\n}\nfunc Repeat(s string, n int) string {\n\treturn \"above %s\"\n}\n", anc))},
			simrt.FileSpec{Path: path.Join(anc, "std/os.tsh"), Data: []byte(fmt.Sprintf("func Shell() string {\n\treturn \"above %s\"\n}\n", anc))})
	}
	for _, f := range h.Files {
		if !strings.Contains(f.Rel, "decoy") && len(f.Data) > 0 {
			// same relative names as the real sources, other (valid) content
			files = append(files, simrt.FileSpec{Path: path.Join("/elsewhere/dir", f.Rel), Data: []byte("func Other() int {\n\treturn 1\n}\nprint(\"from the working directory\")\n")})
		}
	}
	b := c13Budgets()
	out := &simrt.History{World: simrt.WorldSpec{Files: files, Cwd: cwd, Exe: path.Join(exe, "tsh"), Epoch: h.Epoch, Budgets: &b}}
	keys := []*c14Key{}
	for _, s := range h.Steps {
		switch s.Kind {
		case "T":
			prog := h.Progs[s.Prog%len(h.Progs)]
			abs := path.Join(mount, prog)
			p := abs
			switch s.Spelling {
			case "rel":
				if cwd == "/" {
					p = strings.TrimPrefix(abs, "/")
				} else if strings.HasPrefix(abs, cwd+"/") {
					p = abs[len(cwd)+1:]
				}
			case "unclean":
				p = mount + "/./" + prog
			}
			st := simrt.Step{Kind: "transpile", Obj: s.Obj, Path: p, Target: s.Target, MapMode: s.MapMode, MapSeed: s.MapSeed, ExtraConv: s.ExtraConv}
			duringCall := false
			for _, d := range s.Decoys {
				if len(h.Decoys) == 0 {
					continue
				}
				st.Events = append(st.Events, &simrt.Event{AtSeq: d.AtSeq, Kind: "write", Path: path.Join(mount, h.Decoys[d.Decoy%len(h.Decoys)]), Data: d.Data})
				duringCall = true
			}
			// oracle A key
			parts := []string{s.Target, prog}
			for _, c := range h.Closures[prog] {
				parts = append(parts, c+"="+sha(content[c]))
			}
			for _, sn := range h.StdUsed[prog] {
				parts = append(parts, "std/"+sn+"="+sha(env.Std[sn+".tsh"]))
			}
			out.Steps = append(out.Steps, st)
			dparts := []string{s.Target, prog}
			for _, rel := range sortedKeys(content) {
				dparts = append(dparts, rel+"="+sha(content[rel]))
			}
			kd := sha([]byte(strings.Join(dparts, "|")))
			if duringCall {
				// a decoy changes while this call runs: the tree it sees is not one fixed tree
				kd = ""
				for _, d := range s.Decoys {
					if len(h.Decoys) > 0 {
						content[h.Decoys[d.Decoy%len(h.Decoys)]] = d.Data // (whether or not the event fired, later calls get a fresh key below)
					}
				}
			}
			keys = append(keys, &c14Key{Key: strings.Join(parts, "|"), KeyD: kd, Prog: prog, Mount: mount, Exe: exe})
		case "edit":
			data := []byte(nil)
			if s.Version == 0 {
				for _, f := range h.Files {
					if f.Rel == s.Rel {
						data = f.Data
					}
				}
			} else if vs := h.Versions[s.Rel]; len(vs) > 0 {
				data = []byte(vs[(s.Version-1)%len(vs)])
			} else {
				continue
			}
			content[s.Rel] = data
			symlinked[s.Rel] = false // (the edit replaces whatever the name was by a regular file)
			out.Steps = append(out.Steps, simrt.Step{Kind: "write", File: path.Join(mount, s.Rel), Data: data, KeepMtime: s.KeepMtime})
			keys = append(keys, nil)
		case "twin":
			one, two := "tw/one/util.tsh", "tw/two/util.tsh"
			if !h.Twins || sha(content[one]) != sha(content[two]) || symlinked[one] {
				continue // (an edit made the two differ, or "one" is a symbolic link at the moment: nothing to link)
			}
			symlinked[two] = false
			if s.AsLink {
				out.Steps = append(out.Steps, simrt.Step{Kind: "hardlink", File: path.Join(mount, two), Link: path.Join(mount, one)})
			} else {
				out.Steps = append(out.Steps, simrt.Step{Kind: "write", File: path.Join(mount, two), Data: content[two]})
			}
			keys = append(keys, nil)
		case "relink":
			data, ok := content[s.Rel]
			if !ok {
				continue
			}
			symlinked[s.Rel] = s.AsLink
			if s.AsLink {
				store := "/store/c14/" + sha(data) + "-" + sha([]byte(s.Rel))
				out.Steps = append(out.Steps, simrt.Step{Kind: "write", File: store, Data: data}, simrt.Step{Kind: "symlink", File: path.Join(mount, s.Rel), Link: store})
				keys = append(keys, nil, nil)
			} else {
				out.Steps = append(out.Steps, simrt.Step{Kind: "remove", File: path.Join(mount, s.Rel)}, simrt.Step{Kind: "write", File: path.Join(mount, s.Rel), Data: data})
				keys = append(keys, nil, nil)
			}
		case "ghost":
			if s.Gone {
				delete(content, s.Rel)
				out.Steps = append(out.Steps, simrt.Step{Kind: "remove", File: path.Join(mount, s.Rel)})
			} else {
				data := []byte(fmt.Sprintf("func Contains(a string, b string) bool {\n\treturn true\n}\nfunc Shell() string {\n\treturn \"local %d\"\n}\nfunc Repeat(s string, n int) string {\n\treturn s\n}\n", s.Version))
				content[s.Rel] = data
				out.Steps = append(out.Steps, simrt.Step{Kind: "write", File: path.Join(mount, s.Rel), Data: data})
			}
			keys = append(keys, nil)
		case "decoy":
			if len(h.Decoys) == 0 {
				continue
			}
			if dn := h.Decoys[s.Decoy%len(h.Decoys)]; s.Gone && removableDecoy(dn) {
				delete(content, dn)
				out.Steps = append(out.Steps, simrt.Step{Kind: "remove", File: path.Join(mount, dn)})
				keys = append(keys, nil)
				continue
			}
			content[h.Decoys[s.Decoy%len(h.Decoys)]] = s.Data
			out.Steps = append(out.Steps, simrt.Step{Kind: "write", File: path.Join(mount, h.Decoys[s.Decoy%len(h.Decoys)]), Data: s.Data})
			keys = append(keys, nil)
		case "move":
			switch s.What {
			case "mount":
				s.To = strings.Replace(s.To, "@EXE", exe, 1)
				if s.To == mount || strings.HasPrefix(s.To, exe+"/") && !strings.HasPrefix(s.To, exe+"/std") || strings.HasPrefix(s.To, exe+"/std/") || strings.HasPrefix(exe, s.To+"/") || s.To == exe || strings.HasPrefix(exe, mount+"/") {
					continue
				}
				out.Steps = append(out.Steps, simrt.Step{Kind: "move", From: mount, To: s.To})
				keys = append(keys, nil)
				if cwd == mount || strings.HasPrefix(cwd, mount+"/") {
					cwd = s.To + cwd[len(mount):]
					out.Steps = append(out.Steps, simrt.Step{Kind: "chdir", Dir: cwd})
					keys = append(keys, nil)
				}
				mount = s.To
			case "exe":
				if s.To == exe || strings.HasPrefix(s.To, mount+"/") || strings.HasPrefix(mount, s.To+"/") || s.To == mount || strings.HasPrefix(mount, exe+"/") {
					continue // (a tree that lies next to the std directory stays where it is)
				}
				out.Steps = append(out.Steps, simrt.Step{Kind: "move", From: exe, To: s.To}, simrt.Step{Kind: "exe", Dir: path.Join(s.To, "tsh")})
				keys = append(keys, nil, nil)
				exe = s.To
			}
		case "chdir":
			switch s.Where {
			case "mount":
				cwd = mount
			case "parent":
				cwd = path.Dir(mount)
			case "root":
				cwd = "/"
			case "elsewhere":
				cwd = "/elsewhere/dir"
			case "linked":
				// the working directory was entered through a symbolic link that stands next to the
				// tree and leads somewhere deeper: the logical path ($PWD, what Getwd reports) and the
				// physical one disagree about what ".." is
				lnk := path.Join(path.Dir(mount), ".cwlink")
				out.Steps = append(out.Steps, simrt.Step{Kind: "write", File: "/elsewhere/deep/a/b/c/d/keep.txt", Data: []byte("x")}, simrt.Step{Kind: "symlink", File: lnk, Link: "/elsewhere/deep/a/b/c/d"})
				keys = append(keys, nil, nil)
				cwd = lnk
			}
			out.Steps = append(out.Steps, simrt.Step{Kind: "chdir", Dir: cwd})
			keys = append(keys, nil)
		case "epoch":
			out.Steps = append(out.Steps, simrt.Step{Kind: "epoch", Jump: s.Jump})
			keys = append(keys, nil)
		}
	}
	return out, keys
}

func c14Gen(r *Run, rng *gen.Rng, corpus []string) *c14Hist {
	return c14GenOdd(r, rng, corpus, nil)
}

func c14GenOdd(r *Run, rng *gen.Rng, corpus []string, oddPool []string) *c14Hist {
	gw := gen.NewWorld(rng.Sub(), gen.WorldOpts{MaxFiles: 4, StdPct: 10, AllowStd: true, Hostile: false, Decoys: rng.Range(1, 2), Corpus: corpus, CorpusPct: 10, SmallFeats: true})
	h := &c14Hist{Versions: map[string][]string{}, Closures: map[string][]string{}, StdUsed: map[string][]string{}, Epoch: int64(rng.Intn(1 << 30))}
	h.Progs = []string{gw.Main}
	for k := rng.Range(1, 3); k > 0; k-- {
		name := fmt.Sprintf("%sapp%d.tsh", rng.Pick([]string{"", "", "cmd/"}), k)
		gen.AddMain(rng, gw, name, 3)
		h.Progs = append(h.Progs, name)
	}
	// "poison" candidates: rejected or unusual programs (operand matrix, near-miss, stress)
	// transpiled in between; whatever they leave behind in the process must not
	// change what later calls answer
	matrix := oddPool
	if len(matrix) == 0 {
		matrix = gen.OperandMatrix()
	}
	oddFirst := rng.Chance(30)
	nOdd := rng.Range(0, 2)
	if oddFirst {
		nOdd = rng.Range(3, 6)
	}
	for k := nOdd; k > 0; k-- {
		name := fmt.Sprintf("odd%d.tsh", k)
		var src string
		switch rng.Intn(4) {
		case 0, 1:
			src = matrix[rng.Intn(len(matrix))]
		case 2:
			src, _ = gen.SpliceNearMiss(rng, "print(1)\n")
		default:
			src, _ = gen.StressProgram(rng)
		}
		gw.Set(name, []byte(src))
		gw.Edges[name] = nil
		h.Progs = append(h.Progs, name)
	}
	if rng.Chance(10) {
		// two different library files whose content hashes agree in the first seven hex digits (the
		// length of the namespace prefix): used by different programs and by one program together
		ca, cb := collidingPair(rng.U64())
		gw.Set("col/a.tsh", []byte(ca))
		gw.Set("col/b.tsh", []byte(cb))
		for _, m := range []struct{ name, src string; imps []string }{
			{"colA.tsh", "import ca \"col/a.tsh\"\nprint(ca.Retries())\n", []string{"col/a.tsh"}},
			{"colB.tsh", "import cb \"col/b.tsh\"\nprint(cb.Limit())\n", []string{"col/b.tsh"}},
			{"colAB.tsh", "import (\n\tca \"col/a.tsh\"\n\tcb \"col/b.tsh\"\n)\nprint(ca.Retries(), cb.Limit())\n", []string{"col/a.tsh", "col/b.tsh"}},
		} {
			gw.Set(m.name, []byte(m.src))
			gw.Edges[m.name] = m.imps
			h.Progs = append(h.Progs, m.name)
		}
	}
	if rng.Chance(12) {
		// the same bytes under two names, both imported by one program: whether the two names are
		// one file (hard links, as deduplicating tools and store optimisers make them) or two must
		// not matter ("twin" steps switch between the two states)
		twin := "func Ready() string {\n\treturn \"util\"\n}\n" + rng.Pick([]string{"", "print(\"util ready\")\n", "var V int = 3\n"})
		gw.Set("tw/one/util.tsh", []byte(twin))
		gw.Set("tw/two/util.tsh", []byte(twin))
		gw.Set("twin.tsh", []byte("import (\n\ta \"tw/one/util.tsh\"\n\tb \"tw/two/util.tsh\"\n)\nprint(a.Ready(), b.Ready())\n"))
		gw.Edges["twin.tsh"] = []string{"tw/one/util.tsh", "tw/two/util.tsh"}
		h.Progs = append(h.Progs, "twin.tsh")
		h.Twins = true
	}
	if rng.Chance(1) {
		h.Long = true
		gw.Set("fill.tsh", []byte("func keep() int {\n\treturn 1\n}\nprint(keep())\n"))
		gw.Edges["fill.tsh"] = nil
		h.Progs = append(h.Progs, "fill.tsh")
		for i := 0; i < 3; i++ {
			n := fmt.Sprintf("probe%d.tsh", i)
			gw.Set(n, []byte(fmt.Sprintf("func probe%d(a int) int {\n\treturn a + %d\n}\nprint(probe%d(1))\n", i, i, i)))
			gw.Edges[n] = nil
			h.Progs = append(h.Progs, n)
		}
	}
	if rng.Chance(1) {
		// a process that sees many DIFFERENT modules: 40-70 small programs, each importing a module
		// of its own (distinct bytes, same function names). Anything that keeps a bounded number of
		// files, token lists or parse results per process (16, 32, 64 slots) has to evict.
		h.Wide = true
		nw := rng.Pick2([]int{40, 70})
		for i := 0; i < nw; i++ {
			l, m := fmt.Sprintf("wide/l%02d.tsh", i), fmt.Sprintf("wide/p%02d.tsh", i)
			gw.Set(l, []byte(fmt.Sprintf("func Tag() string {\n\treturn \"module %d\"\n}\nfunc Val(a int) int {\n\treturn a * %d + %d\n}\nprint(\"loaded\", Tag())\n", i, i+2, i)))
			gw.Set(m, []byte(fmt.Sprintf("import w \"l%02d.tsh\"\nprint(w.Val(%d), w.Tag())\n", i, i)))
			gw.Edges[l] = nil
			gw.Edges[m] = []string{l}
			h.Progs = append(h.Progs, m)
		}
	}
	h.Files = gw.Files
	h.Decoys = gw.Decoys
	for _, p := range h.Progs {
		h.Closures[p], h.StdUsed[p] = gw.ClosureOf(p)
	}
	// negative dependencies: an import of a std library first looks for a file of that name next
	// to the importing file. Where none exists the name is a "ghost": a closure member whose usual
	// state is absent, and which a step of the history may create and remove again.
	ghostSeen := map[string]bool{}
	for _, p := range h.Progs {
		for _, c := range append([]string{}, h.Closures[p]...) {
			for _, lib := range gw.StdOf[c] {
				cand := path.Join(path.Dir(c), lib)
				if gw.Get(cand) != nil {
					continue
				}
				if !ghostSeen[cand] {
					ghostSeen[cand] = true
					h.Ghosts = append(h.Ghosts, cand)
				}
				dup := false
				for _, x := range h.Closures[p] {
					dup = dup || x == cand
				}
				if !dup {
					h.Closures[p] = append(h.Closures[p], cand)
				}
			}
		}
	}
	sort.Strings(h.Ghosts)
	// alternative versions of every non-decoy file
	for _, f := range gw.Files {
		isDecoy := false
		for _, d := range gw.Decoys {
			if d == f.Rel {
				isDecoy = true
			}
		}
		if isDecoy {
			continue
		}
		s := string(f.Data)
		corrupted, _ := gen.Corrupt(rng, f.Data)
		h.Versions[f.Rel] = []string{s + "\n// edited\n", "\n" + s, string(corrupted)}
		// a version of exactly the same size (one digit changed): metadata-only change detection cannot see it
		if i := strings.IndexAny(s, "0123456789"); i >= 0 {
			b := []byte(s)
			b[i] = '0' + (b[i]-'0'+1)%10
			h.Versions[f.Rel] = append(h.Versions[f.Rel], string(b))
		}
	}
	h.Mount0 = rng.Pick([]string{"/sim/m", "/w/my proj", "/srv/a/b", "/w/proj-1.2/src", "/home/u/.config/t"})
	h.Exe0 = rng.Pick([]string{"/sim/x", "/opt/tsh/bin"})
	mounts := []string{"/sim/m", "/w/my proj", "/srv/a/b", "/mnt/other place/p", "/m2", "/w/100% (x)/p", "/w/a+b [1]", "/w/it's/$HOME", "/w/UPPER/lower", "/" + strings.Repeat("deep/", 12) + "p",
		"/home/u/.dotfiles/scripts", "/w/proj-1.2/src", "/tmp/tmp.AbC123/p", "/w/a.b/c.d/e", "/w/projet-été/src", "/home/ユーザー/p", "/w/backup-2026-09-24T10:30:00/p", "/w/greeter:v2", "/w/a;b,c=d/p", "/w/copy\\2/p", "/w/back\\slash", "/w/say \"hi\"/p", "/w/c:\\users\\me/p", "/w/tab\there/p",
		// next to the std directory, in directories whose names merely begin like it
		"@EXE/std-examples/p", "@EXE/stdlib", "@EXE/std2/x",
		// a location that contains every letter, digit and the punctuation of file names
		"/w/the quick brown fox jumps over the lazy dog_0123456789-h.tsh/p"}
	exes := []string{"/sim/x", "/opt/tsh/bin", "/usr/local/libexec/t", "/a/first", "/zz/last", "/opt/tsh-1.2/bin"}
	// phase 0: canonical execution of every (program, target)
	obj := 100
	order := []int{}
	for pi := range h.Progs {
		order = append(order, pi)
	}
	if oddFirst {
		// the odd programs are the first things this process ever transpiles
		sort.SliceStable(order, func(a, b int) bool {
			return strings.HasPrefix(h.Progs[order[a]], "odd") && !strings.HasPrefix(h.Progs[order[b]], "odd")
		})
	} else if rng.Chance(50) {
		for i := len(order) - 1; i > 0; i-- {
			j := rng.Intn(i + 1)
			order[i], order[j] = order[j], order[i]
		}
	}
	for _, pi := range order {
		targets := []string{"bash", "batch"}
		if rng.Chance(50) {
			targets = []string{"batch", "bash"}
		}
		for _, t := range targets {
			obj++
			h.Steps = append(h.Steps, c14Step{Kind: "T", Prog: pi, Target: t, Obj: obj, MapMode: "canonical", Spelling: "abs"})
		}
	}
	// phase 1
	decoyData := func() simrt.Bytes {
		src, _ := gen.GenProgram(rng.Sub(), gen.RandomFeat(rng), nil, "_dd_")
		return simrt.Bytes(src)
	}
	edited := map[string]int{}
	ghostUp := map[string]bool{}
	n := rng.Range(10, 36)
	if r.Tier == "thorough" && rng.Chance(30) {
		n = rng.Range(30, 60)
	}
	for i := 0; i < n; i++ {
		k := rng.Intn(100)
		switch {
		case k < 62:
			s := c14Step{Kind: "T", Prog: rng.Intn(len(h.Progs)), Target: rng.Pick([]string{"bash", "batch"}),
				MapMode: rng.Pick([]string{"canonical", "reversed", "rotate", "shuffle", "shuffle"}), MapSeed: rng.U64(), Spelling: rng.Pick([]string{"abs", "abs", "rel", "unclean"})}
			if rng.Chance(25) {
				// the caller has built more converters than this call uses (tsh builds all of them first)
				s.ExtraConv = rng.Pick([]string{"bash", "batch"})
			}
			if rng.Chance(70) {
				s.Obj = rng.Intn(3) // shared transpiler objects
			} else {
				obj++
				s.Obj = obj
			}
			if len(h.Decoys) > 0 && rng.Chance(25) {
				for m := rng.Range(1, 2); m > 0; m-- {
					s.Decoys = append(s.Decoys, c14DecoyEv{AtSeq: rng.Range(1, 8), Decoy: rng.Intn(len(h.Decoys)), Data: decoyData()})
				}
			}
			h.Steps = append(h.Steps, s)
		case k < 72:
			// edit or revert a file of some closure
			rels := sortedKeys(h.Versions)
			rel := rng.Pick(rels)
			if edited[rel] != 0 && rng.Chance(60) {
				edited[rel] = 0
			} else {
				edited[rel] = rng.Range(1, 4)
			}
			h.Steps = append(h.Steps, c14Step{Kind: "edit", Rel: rel, Version: edited[rel], KeepMtime: rng.Chance(40)})
		case k < 74 && h.Twins && rng.Chance(60):
			h.Steps = append(h.Steps, c14Step{Kind: "twin", AsLink: rng.Chance(65)})
		case k < 74:
			// the same bytes at the same place, as a symbolic link or as a regular file again
			rels := sortedKeys(h.Versions)
			h.Steps = append(h.Steps, c14Step{Kind: "relink", Rel: rng.Pick(rels), AsLink: rng.Chance(65)})
		case k >= 76 && k < 78 && len(h.Ghosts) > 0:
			g := rng.Pick(h.Ghosts)
			ghostUp[g] = !ghostUp[g] || rng.Chance(25)
			h.Steps = append(h.Steps, c14Step{Kind: "ghost", Rel: g, Gone: !ghostUp[g], Version: rng.Intn(2)})
		case k < 78:
			if len(h.Decoys) > 0 {
				h.Steps = append(h.Steps, c14Step{Kind: "decoy", Decoy: rng.Intn(len(h.Decoys)), Data: decoyData(), Gone: rng.Chance(35)})
			}
		case k < 86:
			h.Steps = append(h.Steps, c14Step{Kind: "move", What: "mount", To: rng.Pick(mounts)})
		case k < 90:
			h.Steps = append(h.Steps, c14Step{Kind: "move", What: "exe", To: rng.Pick(exes)})
		case k < 97:
			h.Steps = append(h.Steps, c14Step{Kind: "chdir", Where: rng.Pick([]string{"mount", "parent", "root", "elsewhere", "elsewhere", "linked"})})
		default:
			h.Steps = append(h.Steps, c14Step{Kind: "epoch", Jump: int64(rng.Intn(1 << 20))})
		}
	}
	// revert all edits and re-run every (program, target) once more, shared object, reversed order
	for _, rel := range sortedKeys(edited) {
		if edited[rel] != 0 {
			h.Steps = append(h.Steps, c14Step{Kind: "edit", Rel: rel, Version: 0})
		}
	}
	for _, g := range sortedKeys(ghostUp) {
		if ghostUp[g] {
			h.Steps = append(h.Steps, c14Step{Kind: "ghost", Rel: g, Gone: true})
		}
	}
	if h.Long {
		// a long-lived process: some hundred further calls. A small program fills the time; three
		// others are used once early and once again exactly 254, 255 and 256 calls later (a counter
		// that wraps, a table with 256 slots)
		idx := map[string]int{}
		for i, p := range h.Progs {
			idx[p] = i
		}
		gaps := []int{255, 256, 254}
		at := map[int]int{}
		for i, g := range gaps {
			at[i] = idx[fmt.Sprintf("probe%d.tsh", i)]
			at[i+g] = idx[fmt.Sprintf("probe%d.tsh", i)]
		}
		for k := 0; k < 270; k++ {
			pi, ok := at[k]
			if !ok {
				pi = idx["fill.tsh"]
			}
			h.Steps = append(h.Steps, c14Step{Kind: "T", Prog: pi, Target: []string{"bash", "batch"}[k%2], Obj: k % 2, MapMode: "canonical", Spelling: "abs"})
		}
	}
	h.Steps = append(h.Steps, c14Step{Kind: "epoch", Jump: int64(1 + rng.Intn(1<<20))}) // another day, host, user, environment
	for pi := len(h.Progs) - 1; pi >= 0; pi-- {
		for _, t := range []string{"batch", "bash"} {
			h.Steps = append(h.Steps, c14Step{Kind: "T", Prog: pi, Target: t, Obj: 0, MapMode: "shuffle", MapSeed: rng.U64(), Spelling: "abs"})
		}
	}
	return h
}

type c14Stats struct {
	histories   int
	calls       int
	keys        map[string]bool
	pairs       int
	pairsB      int
	pairsD      int
	coldPairs   int
	shapes      map[string]bool
	mapNonCanon int
	mapRanges   int
	moves       int
	edits       int
	reverts     int
	decoyDuring int
	chdirs      int
	answers     map[string]int
	aDisabled   int
	sharedObj   int
	samples     []any
	ticks       int64
	ios         int64
	selfcheck   map[string]any
	targetsAlt  int
}

type c14Answer struct {
	kind string
	sha  string
}

func (a c14Answer) String() string {
	if a.kind == "script" {
		return "script:" + a.sha[:12]
	}
	return a.kind
}

func c14AnswerOf(res *simrt.CallResult) c14Answer {
	switch res.Kind {
	case "script":
		return c14Answer{"script", res.ScriptSHA}
	case "error":
		return c14Answer{"error", ""}
	case "panic":
		return c14Answer{"panic", ""}
	}
	return c14Answer{res.Kind, ""}
}

// c14Judge evaluates one executed history. It returns a violation class and
// detail ("" if the property held) and updates the statistics.
func c14Judge(h *c14Hist, conc *simrt.History, keys []*c14Key, res []simrt.CallResult, fatal string, cold map[int]*simrt.CallResult, st *c14Stats) (string, string) {
	if fatal != "" {
		return "worker-died", fatal
	}
	if len(res) != len(conc.Steps) {
		return "worker-died", fmt.Sprintf("%d results for %d steps", len(res), len(conc.Steps))
	}
	// fresh-process oracle: the same call, in the same environment state, as the
	// only call of a fresh process must give the same answer
	for _, i := range sortedIntKeys(cold) {
		if st != nil {
			st.coldPairs++
		}
		hot, c := c14AnswerOf(&res[i]), c14AnswerOf(cold[i])
		if hot != c {
			return "fresh-process-different-answer", fmt.Sprintf("program %s target %s: step %d of the history answered %s, the same call as the only call of a fresh process (same file-system state) answered %s",
				keys[i].Prog, conc.Steps[i].Target, i, hot, c) + c14Describe(conc, max(0, i-6), i)
		}
	}
	firstA := map[string]int{}
	firstB := map[string]int{}
	firstD := map[string]int{}
	for i := range conc.Steps {
		if conc.Steps[i].Kind != "transpile" {
			continue
		}
		k := keys[i]
		ans := c14AnswerOf(&res[i])
		if st != nil {
			st.calls++
			st.keys[k.Key] = true
			st.answers[ans.kind]++
			st.mapNonCanon += res[i].MapNonCanon
			st.mapRanges += res[i].MapRanges
			st.ticks += res[i].Ticks
			st.ios += int64(res[i].IO)
			if res[i].EventsDone > 0 {
				st.decoyDuring += res[i].EventsDone
			}
		}
		// observation set (oracle B) and closure sanity (oracle A)
		obs := []string{}
		outside := false
		closure := map[string]bool{}
		for _, c := range h.Closures[k.Prog] {
			closure[c] = true
		}
		for _, ev := range res[i].Trace {
			if ev.Op != simrt.OpStat && ev.Op != simrt.OpRead {
				continue
			}
			rel := ev.Path
			switch {
			case strings.HasPrefix(ev.Path, k.Mount+"/"):
				rel = "M/" + ev.Path[len(k.Mount)+1:]
				if ev.Res == "ok" && !closure[ev.Path[len(k.Mount)+1:]] {
					outside = true
				}
			case strings.HasPrefix(ev.Path, k.Exe+"/"):
				rel = "X/" + ev.Path[len(k.Exe)+1:]
			}
			obs = append(obs, fmt.Sprintf("%s %s %s %s", ev.Op, rel, ev.Res, ev.Digest))
		}
		sort.Strings(obs)
		bkey := conc.Steps[i].Target + "|" + k.Prog + "|" + sha([]byte(strings.Join(obs, "\n")))
		if !outside {
			if j, ok := firstA[k.Key]; ok {
				if st != nil {
					st.pairs++
				}
				if prev := c14AnswerOf(&res[j]); prev != ans {
					return "same-content-different-answer", fmt.Sprintf("program %s target %s: step %d answered %s, step %d answered %s (same bytes of the import closure, same relative layout)",
						k.Prog, conc.Steps[i].Target, j, prev, i, ans) + c14Describe(conc, j, i)
				}
			} else {
				firstA[k.Key] = i
			}
		} else if st != nil {
			st.aDisabled++
		}
		if k.KeyD != "" {
			if j, ok := firstD[k.KeyD]; ok {
				if st != nil {
					st.pairsD++
				}
				if prev := c14AnswerOf(&res[j]); prev != ans {
					return "same-tree-different-answer", fmt.Sprintf("program %s target %s: step %d answered %s, step %d answered %s although the whole source tree (relative to its mount point, decoys included) and the std library were byte-identical",
						k.Prog, conc.Steps[i].Target, j, prev, i, ans) + c14Describe(conc, j, i)
				}
			} else {
				firstD[k.KeyD] = i
			}
		}
		if j, ok := firstB[bkey]; ok {
			if st != nil {
				st.pairsB++
			}
			if prev := c14AnswerOf(&res[j]); prev != ans {
				return "same-observations-different-answer", fmt.Sprintf("program %s target %s: step %d answered %s, step %d answered %s although the file system told both executions exactly the same",
					k.Prog, conc.Steps[i].Target, j, prev, i, ans) + c14Describe(conc, j, i)
			}
		} else {
			firstB[bkey] = i
		}
	}
	return "", ""
}

func c14Describe(conc *simrt.History, j, i int) string {
	d := func(s *simrt.Step) string {
		return fmt.Sprintf("{obj=%d path=%q map=%s events=%d}", s.Obj, s.Path, s.MapMode, len(s.Events))
	}
	between := []string{}
	for k := j + 1; k < i; k++ {
		s := conc.Steps[k]
		switch s.Kind {
		case "transpile":
			between = append(between, fmt.Sprintf("T(%s,%s,obj%d)", path.Base(s.Path), s.Target, s.Obj))
		default:
			between = append(between, s.Kind)
		}
	}
	if len(between) > 12 {
		between = append(between[:12], "…")
	}
	return fmt.Sprintf(" | first=%s second=%s between=[%s]", d(&conc.Steps[j]), d(&conc.Steps[i]), strings.Join(between, " "))
}

func sortedIntKeys[V any](m map[int]V) []int {
	ks := make([]int, 0, len(m))
	for k := range m {
		ks = append(ks, k)
	}
	sort.Ints(ks)
	return ks
}

// c14ColdSteps selects the concrete transpile steps that are re-executed as
// the only call of a fresh process: every call that directly follows an
// environment change, every third call, and the last four.
func c14ColdSteps(conc *simrt.History) []int {
	out := []int{}
	nT := 0
	total := 0
	for i := range conc.Steps {
		if conc.Steps[i].Kind == "transpile" {
			total++
		}
	}
	for i := range conc.Steps {
		if conc.Steps[i].Kind != "transpile" {
			continue
		}
		nT++
		stride := 3
		if total > 120 {
			stride = 25 // (a long-lived process: a sample of its calls, and its last ones)
		}
		if (i > 0 && conc.Steps[i-1].Kind != "transpile") || nT%stride == 0 || nT > total-4 {
			out = append(out, i)
		}
	}
	return out
}

// c14Cold builds the projection of the history on step i: all environment
// steps before i, then call i alone (no decoy events during the call are
// dropped: they are part of the call).
func c14Cold(conc *simrt.History, i int) *simrt.History {
	p := &simrt.History{World: conc.World}
	for k := 0; k < i; k++ {
		if conc.Steps[k].Kind != "transpile" {
			p.Steps = append(p.Steps, conc.Steps[k])
			continue
		}
		// what other processes wrote while the dropped call ran is part of the state
		for _, e := range conc.Steps[k].Events {
			if e.Kind == "write" {
				p.Steps = append(p.Steps, simrt.Step{Kind: "write", File: e.Path, Data: e.Data})
			}
		}
	}
	st := conc.Steps[i]
	st.Obj = 0
	p.Steps = append(p.Steps, st)
	return p
}

// c14RunCold executes the cold projections of the selected steps.
func c14RunCold(env *Env, conc *simrt.History, steps []int) (map[int]*simrt.CallResult, error) {
	out := map[int]*simrt.CallResult{}
	for _, i := range steps {
		p := c14Cold(conc, i)
		res, fatal, err := env.RunHistory(p)
		if err != nil {
			return nil, err
		}
		if fatal != "" || len(res) != len(p.Steps) {
			out[i] = &simrt.CallResult{Kind: "fatal", Err: fatal}
			continue
		}
		r := res[len(res)-1]
		r.Trace = nil
		out[i] = &r
	}
	return out, nil
}

// c14OddPool runs the operand matrix once and keeps one program per distinct
// normalised outcome (accepted, or the error text with names and numbers
// replaced): odd programs for the histories are then drawn uniformly over
// outcome classes instead of over programs, so that rare kinds of rejection
// are as likely as common ones.
func c14OddPool(r *Run) ([]string, error) {
	progs := gen.OperandMatrix()
	cases := make([]simrt.Case, len(progs))
	for i, p := range progs {
		cases[i] = simrt.Case{World: simrt.WorldSpec{Files: []simrt.FileSpec{{Path: "/sim/m/main.tsh", Data: []byte(p)}, {Path: "/sim/x/tsh", Data: []byte("ELF")}}, Cwd: "/sim/m", Exe: "/sim/x/tsh"},
			Path: "/sim/m/main.tsh", Target: []string{"bash", "batch"}[i%2]}
	}
	res, err := r.Env.RunCases(cases)
	if err != nil {
		return nil, err
	}
	first := map[string]string{}
	for i := range res {
		k := res[i].Kind + ": " + normalise(res[i].Err)
		if res[i].Kind == "script" {
			k = fmt.Sprintf("script-%d", i%7) // keep a few accepted ones
		}
		if _, ok := first[k]; !ok {
			first[k] = progs[i]
		}
	}
	out := []string{}
	for _, k := range sortedKeys(first) {
		out = append(out, first[k])
	}
	return out, nil
}

func c14Shape(h *c14Hist) string {
	var sb strings.Builder
	for _, s := range h.Steps {
		switch s.Kind {
		case "T":
			c := "t"
			if s.Obj < 3 {
				c = "s" // shared object
			}
			if s.MapMode != "canonical" {
				c = strings.ToUpper(c)
			}
			sb.WriteString(c)
		case "edit":
			sb.WriteString("e")
		case "ghost":
			sb.WriteString("g")
		case "decoy":
			sb.WriteString("d")
		case "relink":
			sb.WriteString("l")
		case "twin":
			sb.WriteString("w")
		case "move":
			sb.WriteString("m")
		case "chdir":
			sb.WriteString("c")
		case "epoch":
			sb.WriteString("j")
		}
	}
	return sb.String()
}

func checkC14(r *Run) error {
	rng := gen.NewRng(r.Seed)
	corpus := gen.HarvestCorpus(r.Env.Repo)
	st := &c14Stats{keys: map[string]bool{}, shapes: map[string]bool{}, answers: map[string]int{}}
	oddPool, err := c14OddPool(r)
	if err != nil {
		return err
	}
	batch := 64
	rounds := 0
	detMismatch := 0
	detChecked := 0
	for r.Left() > 0 {
		hs := make([]*c14Hist, batch)
		for i := range hs {
			hs[i] = c14GenOdd(r, rng.Sub(), corpus, oddPool)
		}
		type out struct {
			conc  *simrt.History
			keys  []*c14Key
			res   []simrt.CallResult
			fatal string
			cold  map[int]*simrt.CallResult
			err   error
		}
		outs := make([]out, batch)
		parallel(batch, r.Env.Workers, func(i int) {
			o := &outs[i]
			o.conc, o.keys = hs[i].materialise(r.Env)
			o.res, o.fatal, o.err = r.Env.RunHistory(o.conc)
			if o.err == nil && o.fatal == "" && len(o.res) == len(o.conc.Steps) {
				o.cold, o.err = c14RunCold(r.Env, o.conc, c14ColdSteps(o.conc))
			}
		})
		for i := range outs {
			if outs[i].err != nil {
				return outs[i].err
			}
		}
		for i, h := range hs {
			o := &outs[i]
			st.histories++
			st.shapes[c14Shape(h)] = true
			for _, s := range h.Steps {
				switch s.Kind {
				case "move":
					st.moves++
				case "edit":
					if s.Version == 0 {
						st.reverts++
					} else {
						st.edits++
					}
				case "chdir":
					st.chdirs++
				case "T":
					if s.Obj < 3 {
						st.sharedObj++
					}
				}
			}
			class, detail := c14Judge(h, o.conc, o.keys, o.res, o.fatal, o.cold, st)
			if len(st.samples) < 3 && st.histories%41 == 1 {
				st.samples = append(st.samples, map[string]any{"shape": c14Shape(h), "programs": h.Progs, "closures": h.Closures, "mount0": h.Mount0, "steps": h.Steps[:min(len(h.Steps), 14)], "steps_total": len(h.Steps)})
			}
			if class != "" {
				v := &Violation{Prop: "C14", Class: class, Detail: detail, Kind: "history", Plan: jsonOf(h)}
				if r.Known.Match(v) == nil && !r.seenCls[v.Class] {
					v = c14Minimise(r, h, v)
				}
				r.Report(v)
			}
		}
		// determinism self-check: re-execute a few histories of this batch in
		// another process at another GOMAXPROCS; the answers must be identical.
		if rounds%4 == 0 {
			for _, i := range []int{0, batch / 2} {
				saved := workerGOMAXPROCS
				workerGOMAXPROCS = "16"
				res2, fatal2, err := r.Env.RunHistory(outs[i].conc)
				workerGOMAXPROCS = saved
				if err != nil {
					return err
				}
				detChecked++
				if fatal2 != outs[i].fatal || len(res2) != len(outs[i].res) {
					detMismatch++
					continue
				}
				for k := range res2 {
					a, b := &res2[k], &outs[i].res[k]
					if a.Kind != b.Kind || a.ScriptSHA != b.ScriptSHA {
						detMismatch++
						v := &Violation{Prop: "C14", Class: "uncontrolled-nondeterminism", Uncontrolled: true, Kind: "history", Plan: jsonOf(hs[i]),
							Detail: fmt.Sprintf("the identical plan executed twice (two processes) answered %s/%s and %s/%s at step %d: something outside every seam is nondeterministic", a.Kind, a.ScriptSHA, b.Kind, b.ScriptSHA, k)}
						r.Report(v)
						break
					}
					if a.TraceDigest != b.TraceDigest && !r.Env.SpawnsGoroutines() {
						return machinery("determinism self-check: trace digests differ for an identical plan (harness bug)")
					}
				}
			}
		}
		rounds++
		if len(r.Viol) >= 6 {
			break
		}
	}
	wall := time.Since(r.Start).Seconds()
	cov := map[string]any{
		"evaluations":         st.calls,
		"distinct_nontrivial": len(st.shapes),
		"rule": "one evaluation = one Transpile call inside a history (one fresh worker process per history); a history is non-trivial by construction (>= 2 programs, both targets, shared transpiler objects, non-canonical map orders, relocations, edits/reverts, decoy edits during calls); " +
			"distinct = distinct history shapes (sequence of step kinds x object sharing x canonical/non-canonical map order)",
		"samples":                st.samples,
		"exhaustive":             false,
		"histories":              st.histories,
		"distinct_keys":          len(st.keys),
		"cross_checked_pairs_A":  st.pairs,
		"cross_checked_pairs_B":  st.pairsB,
		"cross_checked_pairs_D":  st.pairsD,
		"fresh_process_pairs":    st.coldPairs,
		"distinct_interleavings": len(st.shapes),
	}
	zero := []string{}
	probes := map[string]int{"map_order_noncanonical": st.mapNonCanon, "relocations": st.moves, "edits": st.edits, "reverts": st.reverts, "decoy_edit_during_call": st.decoyDuring,
		"chdir": st.chdirs, "calls_on_shared_transpiler_object": st.sharedObj, "oracle_A_disabled_outside_closure": st.aDisabled}
	for _, k := range sortedKeys(probes) {
		if probes[k] == 0 && k != "oracle_A_disabled_outside_closure" {
			zero = append(zero, k)
		}
	}
	extra := map[string]any{
		"rounds": rounds, "runs_per_hour": int(float64(st.histories) / wall * 3600), "calls_per_hour": int(float64(st.calls) / wall * 3600),
		"seeds":     map[string]any{"VERIF_SEED": r.Seed},
		"sim_steps": map[string]any{"ticks": st.ticks, "io_operations": st.ios},
		"answers":   st.answers, "probes": probes, "probes_at_zero": zero,
		"map_ranges_executed":   st.mapRanges,
		"determinism_selfcheck": map[string]any{"histories_reexecuted_in_second_process_other_GOMAXPROCS": detChecked, "mismatches": detMismatch},
		"faults":                "no error faults are injected for C14 (the property is about repeatability); environment events: decoy edits between and during calls, edits/reverts of closure files between calls, relocation of mount and executable directory, chdir, logical clock jumps",
		"components": map[string]any{
			"real":    []string{"lexer", "parser", "transpiler", "converters (instrumented copy of the working tree), one OS process per history"},
			"stubbed": []string{"file system (MemFS)", "map iteration order at every range over a map (canonical/reversed/rotate/shuffle)", "cwd, executable location, clock, pid"},
		},
	}
	return r.WriteEvidence(cov, extra, []string{
		"a fresh converter per Transpile call (the property's stated assumption)",
		"calls are interleaved at call granularity (the property speaks of interleaved transpilations on one object, not of concurrent use)",
		"error texts are not compared (they legitimately contain absolute paths); only accepted/rejected and script bytes",
		"Go's real map randomisation outside `range` statements (reflect, goroutines added by a change) is only caught as uncontrolled nondeterminism by the two-process self-check",
	}, "exploration")
}

func c14Probe(r *Run, h *c14Hist) (string, string) {
	conc, keys := h.materialise(r.Env)
	res, fatal, err := r.Env.RunHistory(conc)
	if err != nil {
		return "machinery", err.Error()
	}
	var cold map[int]*simrt.CallResult
	if fatal == "" && len(res) == len(conc.Steps) {
		all := []int{}
		for i := range conc.Steps {
			if conc.Steps[i].Kind == "transpile" {
				all = append(all, i)
			}
		}
		if len(all) > 24 {
			all = c14ColdSteps(conc)
		}
		if cold, err = c14RunCold(r.Env, conc, all); err != nil {
			return "machinery", err.Error()
		}
	}
	return c14Judge(h, conc, keys, res, fatal, cold, nil)
}

func c14Minimise(r *Run, h *c14Hist, v *Violation) *Violation {
	if cls, _ := c14Probe(r, h); cls != v.Class {
		v.Note = "did not reproduce in a fresh process (got " + cls + "); original plan kept"
		return v
	}
	cur := *h
	budget := 200
	if len(cur.Steps) > 120 {
		// (a probe of a long history costs seconds; such a history is hardly reducible anyway)
		budget = 24
		v.Note = "long history: minimisation limited to 24 probes"
	}
	cur.Steps = ddmin(cur.Steps, func(cand []c14Step) bool {
		c := cur
		c.Steps = cand
		cls, _ := c14Probe(r, &c)
		return cls == v.Class
	}, &budget)
	// simplify remaining steps
	for i := range cur.Steps {
		s := cur.Steps[i]
		if s.Kind != "T" || len(cur.Steps) > 120 {
			continue
		}
		for _, simp := range []func(*c14Step){
			func(s *c14Step) { s.Decoys = nil },
			func(s *c14Step) { s.MapMode, s.MapSeed = "reversed", 0 },
			func(s *c14Step) { s.MapMode, s.MapSeed = "canonical", 0 },
			func(s *c14Step) { s.Spelling = "abs" },
		} {
			c := cur
			c.Steps = append([]c14Step{}, cur.Steps...)
			simp(&c.Steps[i])
			if cls, _ := c14Probe(r, &c); cls == v.Class {
				cur = c
			}
		}
	}
	// drop files outside every remaining closure
	if cls, detail := c14Probe(r, &cur); cls == v.Class {
		v.Plan = jsonOf(&cur)
		v.Min = true
		v.Detail = detail + fmt.Sprintf(" | minimised to %d steps: %s", len(cur.Steps), c14Shape(&cur))
	}
	return v
}

func replayC14(r *Run, v *Violation) (bool, string, error) {
	var h c14Hist
	if err := json.Unmarshal(v.Plan, &h); err != nil {
		return false, "", machinery("bad replay plan: %v", err)
	}
	tries := 1
	if v.Uncontrolled {
		tries = 200
	}
	var first []simrt.CallResult
	for t := 0; t < tries; t++ {
		conc, keys := h.materialise(r.Env)
		res, fatal, err := r.Env.RunHistory(conc)
		if err != nil {
			return false, "", err
		}
		var cold map[int]*simrt.CallResult
		if fatal == "" && len(res) == len(conc.Steps) {
			all := []int{}
			for i := range conc.Steps {
				if conc.Steps[i].Kind == "transpile" {
					all = append(all, i)
				}
			}
			if cold, err = c14RunCold(r.Env, conc, all); err != nil {
				return false, "", err
			}
		}
		if cls, detail := c14Judge(&h, conc, keys, res, fatal, cold, nil); cls != "" {
			return true, "class=" + cls + " " + detail, nil
		}
		if v.Uncontrolled {
			if first == nil {
				first = res
			} else {
				for k := range res {
					if k < len(first) && (res[k].Kind != first[k].Kind || res[k].ScriptSHA != first[k].ScriptSHA) {
						return true, fmt.Sprintf("class=uncontrolled-nondeterminism: repetition %d differs at step %d", t, k), nil
					}
				}
			}
		}
	}
	return false, "no violation on replay", nil
}

package main

import (
	"bytes"
	"encoding/json"
	"fmt"
	"path"
	"regexp"
	"sort"
	"strings"
	"time"

	"verifsim/gen"
	"verifsim/simrt"
)

// C13 — transpilation is total: a script xor a non-empty error, no panic,
// no unbounded recursion, bounded work. Engine A, fault enumeration.

type c13Meta struct {
	Shape   string
	Corrupt string
	Family  string // base | corrupt | hostile | sweep | torn | multi | pathvar | mutate
	NFiles  int
}

type c13Stats struct {
	evals        int
	outcomes     map[string]int // normalised outcome -> count
	triples      map[string]bool
	faultsFired  map[string]int
	faultsConf   map[string]int
	families     map[string]int
	shapes       map[string]int
	accepted     int
	rejected     int
	famAccepted  map[string]int
	maxOkTicks   int64
	maxOkIO      int
	maxOkDepth   int
	maxTicks     int64
	maxIO        int
	maxDepth     int
	ticks        int64
	ios          int64
	probes       map[string]int
	samples      []any
	sweptWorlds  int
	sweepCases   int
	tornSweeps   int
	editSweeps   int
	editCases    int
	tinyInputs   int
	matrixInputs int
	maxStressTicks int64
	maxStressWhat  string
}

func c13World(gw *gen.GenWorld, env *Env, mount, exeDir string) []simrt.FileSpec {
	fs := []simrt.FileSpec{}
	for _, f := range gw.Files {
		fs = append(fs, simrt.FileSpec{Path: path.Join(mount, f.Rel), Data: bytes.ReplaceAll(f.Data, []byte(gen.MountMark), []byte(mount))})
	}
	fs = append(fs, simrt.FileSpec{Path: path.Join(exeDir, "tsh"), Data: []byte("ELF")})
	for _, f := range gw.StdFiles {
		fs = append(fs, simrt.FileSpec{Path: path.Join(exeDir, "std", f.Rel), Data: bytes.ReplaceAll(f.Data, []byte(gen.MountMark), []byte(mount))})
	}
	for _, name := range sortedKeys(env.Std) {
		fs = append(fs, simrt.FileSpec{Path: path.Join(exeDir, "std", name), Data: env.Std[name]})
	}
	return fs
}

func c13Classify(res *simrt.CallResult) (class string, ok bool) {
	switch res.Kind {
	case "script":
		return "script", true
	case "error":
		if res.ErrEmpty {
			return "emptyerr", false
		}
		return "error", true
	case "panic":
		return "panic@" + res.PanicTop + ": " + normalise(res.PanicMsg), false
	case "budget":
		return "budget:" + res.BudgetKind, false
	case "fatal":
		l := res.Err
		if i := strings.Index(l, "\n"); i > 0 {
			l = l[:i]
		}
		return "fatal: " + normalise(l), false
	case "both":
		return "both-script-and-error", false
	case "neither":
		return "neither-script-nor-error", false
	}
	return "unknown-kind:" + res.Kind, false
}

var importLineRe = regexp.MustCompile("(?m)^\\s*(?:import\\s+)?(?:[A-Za-z_][A-Za-z0-9_]*\\s+)?[\"`]([^\"`\\n]+)[\"`]\\s*$")

// hasImportCycle is the orchestrator's own (approximate) view of the import
// graph of a world, used only to describe violations.
func hasImportCycle(files []simrt.FileSpec) bool {
	content := map[string]string{}
	for _, f := range files {
		if !f.Dir {
			content[f.Path] = string(f.Data)
		}
	}
	adj := map[string][]string{}
	for p, s := range content {
		head := s
		if i := strings.Index(s, "import"); i >= 0 {
			end := len(s)
			if j := strings.Index(s[i:], "\n)"); j >= 0 {
				end = i + j
			} else if j := strings.Index(s[i:], "\n"); j >= 0 {
				end = i + j
			}
			head = s[i:end]
		} else {
			continue
		}
		for _, m := range importLineRe.FindAllStringSubmatch(head, -1) {
			t := m[1]
			if !path.IsAbs(t) {
				t = path.Join(path.Dir(p), t)
			}
			if _, ok := content[t]; ok {
				adj[p] = append(adj[p], t)
			}
		}
	}
	state := map[string]int{}
	var dfs func(string) bool
	dfs = func(u string) bool {
		state[u] = 1
		for _, v := range adj[u] {
			if state[v] == 1 || (state[v] == 0 && dfs(v)) {
				return true
			}
		}
		state[u] = 2
		return false
	}
	for _, p := range sortedKeys(content) {
		if state[p] == 0 && dfs(p) {
			return true
		}
	}
	return false
}

func checkC13(r *Run) error {
	rng := gen.NewRng(r.Seed)
	corpus := gen.HarvestCorpus(r.Env.Repo)
	st := &c13Stats{outcomes: map[string]int{}, triples: map[string]bool{}, faultsFired: map[string]int{}, faultsConf: map[string]int{},
		families: map[string]int{}, shapes: map[string]int{}, probes: map[string]int{}, famAccepted: map[string]int{}}
	roundSize := 160
	sweepPerRound := 6
	if r.Tier == "thorough" {
		roundSize = 320
		sweepPerRound = 16
	}
	rounds := 0
	var firstSub, lastSub uint64
	if err := c13Tiny(r, st); err != nil {
		return err
	}
	// the two fixed input lists ride along; the time budget is for the seeded search
	fixedS := time.Since(r.Start)
	r.Budget += fixedS
	for r.Left() > 0 {
		sub := rng.Sub()
		if rounds == 0 {
			firstSub = sub.U64()
		}
		lastSub = sub.U64()
		if err := c13Round(r, sub, st, corpus, roundSize, sweepPerRound); err != nil {
			return err
		}
		rounds++
		if len(r.Viol) >= 8 {
			break // enough distinct unlisted violations to act on
		}
	}
	wall := time.Since(r.Start).Seconds()
	outs := []string{}
	for _, k := range sortedKeys(st.outcomes) {
		outs = append(outs, fmt.Sprintf("%s x%d", k, st.outcomes[k]))
	}
	if len(outs) > 60 {
		outs = outs[:60]
	}
	zero := []string{}
	for _, p := range []string{"toctou_read_fails_after_stat_ok", "second_read_differs", "import_cycle_world", "std_import_world", "relative_main_path", "getwd_fault_fired", "executable_fault_fired", "torn_inside_token", "fatal_worker_death"} {
		if st.probes[p] == 0 {
			zero = append(zero, p)
		}
	}
	cov := map[string]any{
		"evaluations":         st.evals,
		"distinct_nontrivial": len(st.triples),
		"rule": "one evaluation = one Transpile call on a fresh simulated world (MemFS + fault rules) in the instrumented real code; " +
			"non-trivial = a fault fired or the world was corrupted/hostile; distinct = distinct (normalised outcome, fault kind fired, import-graph shape or corruption kind) triples",
		"samples":    st.samples,
		"exhaustive": false,
		"single_fault_sweeps": map[string]any{"worlds_swept": st.sweptWorlds, "cases": st.sweepCases,
			"meaning": "for each swept world every recorded I/O call index x every applicable fault kind was executed once"},
		"torn_prefix_sweeps": st.tornSweeps,
		"token_edit_sweeps": map[string]any{"programs_swept": st.editSweeps, "cases": st.editCases,
			"meaning": "for each swept corpus program, at EVERY token position: deletion, duplication, swap with the next token, substitution by a moving window of the vocabulary and of the file's own tokens (main or imported file)"},
		"operand_matrix": map[string]any{"programs": st.matrixInputs, "exhaustive_over": "every expression slot of every statement form, builtin, return position (also nested in if/for/switch inside functions) x 35 operand kinds (void/single/multi-value calls, app calls, slices, nil, literals, undefined names, parenthesised variants) x placement at top level / inside a function, both targets"},
		"tiny_input_enumeration": map[string]any{"inputs": st.tinyInputs, "exhaustive_over": "every single byte, every vocabulary token, every ordered pair of vocabulary tokens with and without a separating blank, every encoding mark x 12 short tails, every line opener (shebang, comment and string openers) x 7 endings (thorough: plus all triples over a 30-token vocabulary) as the whole main file"},
	}
	extra := map[string]any{
		"rounds":            rounds,
		"fixed_lists_wall_s": fixedS.Seconds(),
		"runs_per_hour":     int(float64(st.evals) / wall * 3600),
		"seeds":             map[string]any{"VERIF_SEED": r.Seed, "first_round_subseed": firstSub, "last_round_subseed": lastSub},
		"sim_steps":         map[string]any{"ticks": st.ticks, "io_operations": st.ios, "note": "the system has no timers; simulated time is logical steps"},
		"faults_fired":      st.faultsFired,
		"faults_configured": st.faultsConf,
		"probes":            st.probes,
		"probes_at_zero":    zero,
		"families":          st.families,
		"shapes":            st.shapes,
		"accepted":          st.accepted,
		"rejected":          st.rejected,
		"distinct_outcomes": len(st.outcomes),
		"outcomes":          outs,
		"max_observed":      map[string]any{"ticks": st.maxTicks, "io": st.maxIO, "depth": st.maxDepth},
		"max_observed_in_passing_runs": map[string]any{"ticks": st.maxOkTicks, "io": st.maxOkIO, "depth": st.maxOkDepth},
		"accepted_by_family": st.famAccepted,
		"max_ticks_of_a_passing_stress_program": map[string]any{"ticks": st.maxStressTicks, "program": st.maxStressWhat},
		"budgets":           c13Budgets(),
		"corpus_programs":   len(corpus),
		"components": map[string]any{
			"real":    []string{"lexer", "parser", "transpiler", "converters/bash", "converters/batch (all from /repo working tree, instrumented copy)"},
			"stubbed": []string{"os.Stat/ReadFile/Executable, filepath.Abs (MemFS with fault rules)", "map iteration order", "step counter"},
		},
	}
	return r.WriteEvidence(cov, extra, []string{
		"the AST instrumentation preserves behaviour (selftest transparency)",
		"MemFS behaves like the kernel for the operations used (selftest conformance)",
		"bounded termination is judged by deterministic step/IO/depth budgets far above what the unchanged tree needs, not by wall-clock",
	}, "fault_enumeration")
}

// c13Tiny enumerates a small input space completely: every single byte, every
// vocabulary token and every ordered pair of vocabulary tokens (separated by a
// blank or not) as the whole main file; thorough adds all triples over a
// reduced vocabulary. Both targets alternate.
func c13Tiny(r *Run, st *c13Stats) error {
	inputs := []string{""}
	for b := 0; b < 256; b++ {
		inputs = append(inputs, string([]byte{byte(b)}))
	}
	for _, a := range gen.Vocab {
		inputs = append(inputs, a)
		for _, b := range gen.Vocab {
			inputs = append(inputs, a+b, a+" "+b)
		}
	}
	// every encoding mark in front of every kind of short tail (even and odd lengths, NUL-padded
	// code units, a whole program in UTF-16 with and without a stray byte)
	u16 := func(s string, le bool) string {
		out := []byte{}
		for _, c := range []byte(s) {
			if le {
				out = append(out, c, 0)
			} else {
				out = append(out, 0, c)
			}
		}
		return string(out)
	}
	for _, mark := range []string{"\xef\xbb\xbf", "\xff\xfe", "\xfe\xff", "\xff\xfe\x00\x00", "\x00\x00\xfe\xff"} {
		for _, tl := range []string{"", "x", "xy", "x\x00", "x\x00y", "x\x00y\x00", "\n", "print(1)\n", u16("print(1)\n", true), u16("print(1)\n", true) + "\n", u16("print(1)\n", false), u16("print(1)\n", false)[1:]} {
			inputs = append(inputs, mark+tl)
		}
	}
	for _, first := range []string{"#!", "#!/usr/bin/env tsh", "#", "#!/bin/sh -e", "//", "/*", "/*/", "\"", "`"} {
		for _, tl := range []string{"", "\n", "\r", "\r\n", "\nprint(1)\n", " print(1)", "\x00"} {
			inputs = append(inputs, first+tl)
		}
	}
	// files that end in the middle of a multi-byte character: inside every kind of token that can hold one
	for _, open := range []string{"\"", "`", "print(\"caf", "x := `10 ", "// caf", "/* caf", "x", "print(1)\n", "import l \"caf", "\"a\\"} {
		for _, part := range []string{"\xc3", "\xe2", "\xe2\x82", "\xf0", "\xf0\x9f", "\xf0\x9f\x98", "\xc3\xa9\xc3", "\x80", "\xc0\xaf", "\xed\xa0\x80"} {
			inputs = append(inputs, open+part)
		}
	}
	// every vocabulary token after something that produces no token (blanks, a tab, a comment)
	for _, a := range gen.Vocab {
		inputs = append(inputs, " "+a, "\t"+a+"\n", "/* c */"+a+"\n", "   "+a+" + 3\n")
	}
	// every near-miss line that needs no prelude, as the whole file (nothing before it: look-ahead
	// code that scans from the start of the token list behaves differently there)
	for _, l := range gen.NearMissLines {
		if !strings.Contains(l, "nm") {
			inputs = append(inputs, l+"\n", "var a int\n"+l+"\n")
		}
	}
	nTiny := len(inputs)
	inputs = append(inputs, gen.OperandMatrix()...)
	if r.Tier == "thorough" {
		small := []string{"x", "f", "(", ")", "{", "}", "[", "]", "\n", ",", ":=", "=", "func", "var", "if", "for", "switch", "case", "return", "import", "\"", "1", "@", "|", ".", "int", "range", ";", "+", "!"}
		for _, a := range small {
			for _, b := range small {
				for _, c := range small {
					inputs = append(inputs, a+" "+b+" "+c)
				}
			}
		}
	}
	b := c13Budgets()
	// the enumerated tiny inputs are at most some dozen bytes long: a tenth of a per cent of the
	// general step budget is still a hundred times what they need, and a change that makes many
	// of them spin is reported in a minute instead of a quarter of an hour
	bt := b
	bt.Ticks = 2_000_000
	cases := make([]c13Case, len(inputs))
	for i, in := range inputs {
		bb := &b
		if i < nTiny && len(in) < 200 {
			bb = &bt
		}
		spec := simrt.WorldSpec{Files: []simrt.FileSpec{{Path: "/sim/m/main.tsh", Data: []byte(in)}, {Path: "/sim/m/x", Data: []byte("func X() {\n}\n")}, {Path: "/sim/x/tsh", Data: []byte("ELF")}},
			Cwd: "/sim/m", Exe: "/sim/x/tsh", MapMode: "canonical", Budgets: bb}
		cases[i] = c13Case{c: simrt.Case{World: spec, Path: "/sim/m/main.tsh", Target: []string{"bash", "batch"}[i%2]}, meta: c13Meta{Shape: "tiny", Corrupt: "enumerated", Family: "tiny-enumeration", NFiles: 1}}
	}
	// the operand matrix is run for both targets (converter back ends differ)
	for i := nTiny; i < len(inputs) && i < nTiny+len(gen.OperandMatrix()); i++ {
		c := cases[i]
		c.c.Target = map[string]string{"bash": "batch", "batch": "bash"}[c.c.Target]
		c.meta.Family = "operand-matrix"
		cases[i].meta.Family = "operand-matrix"
		cases = append(cases, c)
	}
	// … and once more as an IMPORTED file (what an imported file may contain at top level
	// goes through other code than the main file): alternating targets
	for k, p := range gen.OperandMatrix() {
		spec := simrt.WorldSpec{Files: []simrt.FileSpec{{Path: "/sim/m/main.tsh", Data: []byte("import l \"lib/l.tsh\"\nprint(1)\n")}, {Path: "/sim/m/lib/l.tsh", Data: []byte(p)}, {Path: "/sim/x/tsh", Data: []byte("ELF")}},
			Cwd: "/sim/m", Exe: "/sim/x/tsh", MapMode: "canonical", Budgets: &b}
		cases = append(cases, c13Case{c: simrt.Case{World: spec, Path: "/sim/m/main.tsh", Target: []string{"bash", "batch"}[k%2]}, meta: c13Meta{Shape: "chain", Corrupt: "enumerated-imported", Family: "operand-matrix", NFiles: 2}})
	}
	_, err := c13Exec(r, st, cases)
	st.tinyInputs = nTiny
	st.matrixInputs = len(gen.OperandMatrix())
	return err
}

func c13Budgets() simrt.Budgets { return simrt.Budgets{Ticks: 50_000_000, IO: 5000, Depth: 50_000} }

type c13Case struct {
	c    simrt.Case
	meta c13Meta
}

func c13Round(r *Run, rng *gen.Rng, st *c13Stats, corpus []string, roundSize, sweepN int) error {
	b := c13Budgets()
	mounts := []string{"/sim/m", "/sim/m", "/w/my proj", "/a/b/c/d", "/m", "/home/u/.dotfiles/p", "/w/proj-1.2/src", "/w/projet-été/src", "/w/backup-2026-09-24T10:30:00/p", "/w/greeter:v2", "/w/copy\\2/p", "/w/say \"hi\"/p", "/w/the quick brown fox jumps over the lazy dog_0123456789-h.tsh/p"}
	exes := []string{"/sim/x", "/opt/tsh/bin", "/sim/m/bin"}
	mk := func(gw *gen.GenWorld, family, corrupt string) c13Case {
		mount, exe := rng.Pick(mounts), rng.Pick(exes)
		spec := simrt.WorldSpec{Files: c13World(gw, r.Env, mount, exe), Cwd: mount, Exe: path.Join(exe, "tsh"),
			MapMode: rng.Pick([]string{"canonical", "reversed", "shuffle", "rotate"}), MapSeed: rng.U64(), Epoch: int64(rng.Intn(1 << 30)), Budgets: &b}
		// layout dimension: the same tree reached through symbolic links (a linked work directory,
		// a stow/nix style tree in which every file is a link into a store, a linked installation)
		via := mount
		if rng.Chance(14) {
			switch rng.Intn(3) {
			case 0:
				via = rng.Pick([]string{"/lnk/proj", "/home/u/work", "/sim/m-link"})
				spec.Files = append(spec.Files, simrt.FileSpec{Path: via, Link: mount})
				if rng.Chance(50) {
					// absolute import paths written in terms of the link, too
					for i := range spec.Files {
						f := &spec.Files[i]
						if strings.HasSuffix(f.Path, ".tsh") {
							f.Data = bytes.ReplaceAll(f.Data, []byte("\""+mount+"/"), []byte("\""+via+"/"))
						}
					}
				}
				spec.Cwd = via
				st.probes["layout_dirlink"]++
			case 1:
				n := len(spec.Files)
				for i := 0; i < n; i++ {
					f := &spec.Files[i]
					if strings.HasPrefix(f.Path, mount+"/") && !f.Dir && f.Link == "" {
						store := fmt.Sprintf("/store/%03d-%s", i, path.Base(f.Path))
						spec.Files = append(spec.Files, simrt.FileSpec{Path: store, Data: f.Data})
						f = &spec.Files[i]
						f.Data, f.Link = nil, store
					}
				}
				st.probes["layout_filelinks"]++
			default:
				lnk := "/usr/local/bin"
				spec.Files = append(spec.Files, simrt.FileSpec{Path: lnk, Link: exe})
				spec.Exe = lnk + "/tsh"
				st.probes["layout_exelink"]++
			}
		}
		p := path.Join(via, gw.Main)
		if rng.Chance(30) {
			p = gw.Main // relative to cwd
			if rng.Chance(30) {
				spec.Cwd = path.Dir(via)
				p = path.Join(path.Base(via), gw.Main)
			}
		}
		return c13Case{c: simrt.Case{World: spec, Path: p, Target: rng.Pick([]string{"bash", "batch"})},
			meta: c13Meta{Shape: gw.Shape, Corrupt: corrupt, Family: family, NFiles: len(gw.Files)}}
	}
	// ---- phase 1: base worlds, corrupted worlds, hostile worlds, path variants
	cases := []c13Case{}
	var bases []int
	for i := 0; i < roundSize; i++ {
		gw := gen.NewWorld(rng.Sub(), gen.WorldOpts{MaxFiles: 5, StdPct: 4, AllowStd: true, Hostile: true, Decoys: 0, Corpus: corpus, CorpusPct: 35, SmallFeats: rng.Chance(50), AbsImports: true})
		fam := "base"
		if gw.Hostile {
			fam = "hostile"
		}
		bc := mk(gw, fam, "")
		bc.c.ReturnTrace = true
		bases = append(bases, len(cases))
		cases = append(cases, bc)
		// corrupted variants of the same world
		for k := rng.Range(1, 3); k > 0; k-- {
			cw := &gen.GenWorld{Main: gw.Main, Shape: gw.Shape, Closure: gw.Closure, Hostile: gw.Hostile, StdFiles: gw.StdFiles, AbsOK: gw.AbsOK}
			cw.Files = append([]gen.WFile{}, gw.Files...)
			victim := gw.Main
			if len(gw.Closure) > 1 && rng.Chance(40) {
				victim = rng.Pick(gw.Closure)
			}
			var data []byte
			var desc string
			if rng.Chance(45) {
				var s string
				s, desc = gen.SpliceNearMiss(rng, string(gw.Get(victim)))
				data = []byte(s)
			} else {
				data, desc = gen.Corrupt(rng, gw.Get(victim))
			}
			cw.Set(victim, data)
			cases = append(cases, mk(cw, "corrupt", desc))
		}
		// stress programs: one construct repeated or nested N times (main file or an imported file)
		if rng.Chance(30) {
			src, desc := gen.StressProgram(rng)
			sw := &gen.GenWorld{Main: "main.tsh", Shape: "single", Closure: []string{"main.tsh"}}
			sw.Set("main.tsh", []byte(src))
			if rng.Chance(25) {
				sw.Set("lib.tsh", []byte(src))
				sw.Set("main.tsh", []byte("import l \"lib.tsh\"\nprint(1)\n"))
				sw.Shape = "chain"
			}
			sc := mk(sw, "stress", desc)
			cases = append(cases, sc)
		}
		// many imports: a main file importing 10-40 small files, or one file under many aliases
		if rng.Chance(3) {
			mw := &gen.GenWorld{Main: "main.tsh", Shape: "many-imports"}
			n := rng.Pick2([]int{10, 20, 40})
			var hdr, body strings.Builder
			hdr.WriteString("import (\n")
			same := rng.Chance(40)
			for k := 0; k < n; k++ {
				f := fmt.Sprintf("lib/m%d.tsh", k)
				if same {
					f = "lib/m0.tsh"
				}
				mw.Set(f, []byte(fmt.Sprintf("func F%d() int {\n\treturn %d\n}\n", map[bool]int{true: 0, false: k}[same], k)))
				fmt.Fprintf(&hdr, "\ta%d %q\n", k, f)
				fmt.Fprintf(&body, "print(a%d.F%d())\n", k, map[bool]int{true: 0, false: k}[same])
			}
			hdr.WriteString(")\n")
			mw.Set("main.tsh", []byte(hdr.String()+body.String()))
			mc := mk(mw, "stress", fmt.Sprintf("stress:many-imports/%d same=%v", n, same))
			cases = append(cases, mc)
		}
		// std library variants: the program imports a std library, the installation is odd
		if rng.Chance(6) {
			sw := &gen.GenWorld{Main: "main.tsh", Shape: "std", Closure: []string{"main.tsh"}}
			sw.Set("main.tsh", []byte(rng.Pick([]string{"import \"strings\"\nprint(strings.Contains(\"ab\", \"a\"))\n", "import (\n\t\"os\"\n\ts \"strings\"\n)\nprint(os.Shell())\n", "import \"strings.tsh\"\n", "import \"../std/strings\"\n", "import \"strings/\"\n"})))
			sv := mk(sw, "stdvar", "")
			files := []simrt.FileSpec{}
			exeDir := path.Dir(sv.c.World.Exe)
			variant := rng.Pick([]string{"no-std-dir", "std-is-a-file", "lib-is-a-directory", "lib-empty", "lib-garbage", "exe-in-root", "std-ok"})
			for _, f := range sv.c.World.Files {
				inStd := strings.HasPrefix(f.Path, exeDir+"/std/")
				switch {
				case inStd && (variant == "no-std-dir" || variant == "std-is-a-file"):
					continue
				case inStd && variant == "lib-is-a-directory":
					files = append(files, simrt.FileSpec{Path: f.Path + "/inner", Data: []byte("x")})
					continue
				case inStd && variant == "lib-empty":
					f.Data = nil
				case inStd && variant == "lib-garbage":
					f.Data, _ = gen.Corrupt(rng, f.Data)
				}
				files = append(files, f)
			}
			if variant == "std-is-a-file" {
				files = append(files, simrt.FileSpec{Path: exeDir + "/std", Data: []byte("not a directory")})
			}
			sv.c.World.Files = files
			if variant == "exe-in-root" {
				sv.c.World.Exe = "/tsh"
			}
			sv.meta.Corrupt = "std:" + variant
			cases = append(cases, sv)
		}
		// path variants
		if rng.Chance(12) {
			pv := mk(gw, "pathvar", "")
			switch rng.Intn(5) {
			case 0:
				pv.c.Path = path.Join(path.Dir(pv.c.Path), "missing.tsh")
				pv.meta.Corrupt = "main-missing"
			case 1:
				pv.c.Path = pv.c.World.Cwd
				pv.meta.Corrupt = "main-is-dir"
			case 2:
				pv.c.Path = ""
				pv.meta.Corrupt = "main-empty-path"
			case 3:
				pv.c.Path = gw.Main
				pv.c.World.Cwd = "/sim/m"
				pv.c.World.Faults = []*simrt.Fault{{Seq: -1, Op: simrt.OpGetwd, Kind: rng.Pick([]string{simrt.KENOENT, simrt.KEACCES})}}
				pv.meta.Corrupt = "getwd-fails"
			default:
				pv.c.Path = pv.c.Path + "/"
				pv.meta.Corrupt = "main-trailing-slash"
			}
			cases = append(cases, pv)
		}
	}
	// systematic single-token edits of one valid corpus program per round (C13's quantifier:
	// "all single- and double-token edits of valid programs"): every position, not a sample
	if len(corpus) > 0 {
		nv, nf, maxTok := 3, 3, 90
		if r.Tier == "thorough" {
			nv, nf, maxTok = 12, 10, 160
		}
		for tries := 0; tries < 12; tries++ {
			src := corpus[rng.Intn(len(corpus))]
			if n := gen.SigTokens(src); n < 4 || n > maxTok {
				continue
			}
			voff := rng.Intn(len(gen.Vocab))
			imported := rng.Chance(25)
			st.editSweeps++
			for _, ed := range gen.TokenEdits(src, voff, nv, nf) {
				ew := &gen.GenWorld{Main: "main.tsh", Shape: "single", Closure: []string{"main.tsh"}}
				if imported {
					ew.Set("lib.tsh", []byte(ed.Src))
					ew.Set("main.tsh", []byte("import l \"lib.tsh\"\nprint(1)\n"))
					ew.Shape = "chain"
				} else {
					ew.Set("main.tsh", []byte(ed.Src))
				}
				cases = append(cases, mk(ew, "token-edit-sweep", ed.Desc))
				st.editCases++
			}
			break
		}
	}
	res, err := c13Exec(r, st, cases)
	if err != nil {
		return err
	}
	// ---- phase 2: fault sweeps derived from recorded fault-free traces
	cases2 := []c13Case{}
	swept := 0
	tornDone := false
	order := append([]int{}, bases...)
	// deterministic shuffle of candidate worlds
	for i := len(order) - 1; i > 0; i-- {
		j := rng.Intn(i + 1)
		order[i], order[j] = order[j], order[i]
	}
	for _, bi := range order {
		base, bres := cases[bi], res[bi]
		if len(bres.Trace) == 0 || bres.Kind == "fatal" {
			continue
		}
		ioEvents := []simrt.TraceEv{}
		for _, ev := range bres.Trace {
			switch ev.Op {
			case simrt.OpStat, simrt.OpRead, simrt.OpGetwd, simrt.OpExecutable:
				ioEvents = append(ioEvents, ev)
			}
		}
		if swept < sweepN && len(ioEvents) <= 60 {
			swept++
			st.sweptWorlds++
			for _, ev := range ioEvents {
				for _, kind := range simrt.ApplicableFaults(ev.Op) {
					fc := base
					fc.c.ReturnTrace = false
					fc.meta.Family = "sweep"
					f := &simrt.Fault{Seq: ev.Seq, Op: ev.Op, Kind: kind}
					switch kind {
					case simrt.KTORN:
						f.N = rng.Intn(ev.N + 1)
					case simrt.KFLIP:
						f.N = rng.Intn(ev.N + 1)
						f.B = 1 << uint(rng.Intn(8))
					case simrt.KMUTATE:
						other, _ := gen.Corrupt(rng, []byte(specData(&base.c.World, ev.Path)))
						f.Data = other
					}
					fc.c.World.Faults = []*simrt.Fault{f}
					cases2 = append(cases2, fc)
					st.sweepCases++
				}
			}
		}
		// TORN prefix sweep at token granularity for one file per round
		if !tornDone {
			for _, ev := range ioEvents {
				if ev.Op == simrt.OpRead && ev.N > 20 && ev.N < 1500 {
					tornDone = true
					st.tornSweeps++
					src := specData(&base.c.World, ev.Path)
					off := 0
					for _, tk := range gen.Tokens(src) {
						for _, cut := range []int{off, off + len(tk)/2} {
							if cut > off && cut < off+len(tk) {
								st.probes["torn_inside_token"]++
							}
							fc := base
							fc.c.ReturnTrace = false
							fc.meta.Family = "torn"
							fc.c.World.Faults = []*simrt.Fault{{Seq: ev.Seq, Op: ev.Op, Kind: simrt.KTORN, N: cut}}
							cases2 = append(cases2, fc)
						}
						off += len(tk)
					}
					break
				}
			}
		}
		// seeded multi-fault runs and second-read mutation
		if rng.Chance(40) && len(ioEvents) > 0 {
			fc := base
			fc.c.ReturnTrace = false
			fc.meta.Family = "multi"
			for k := rng.Range(1, 3); k > 0; k-- {
				ev := ioEvents[rng.Intn(len(ioEvents))]
				kinds := simrt.ApplicableFaults(ev.Op)
				f := &simrt.Fault{Seq: -1, Op: ev.Op, PathSuffix: path.Base(ev.Path), Nth: rng.Intn(2), Kind: rng.Pick(kinds), N: rng.Intn(ev.N + 1), B: 1 + rng.Intn(255)}
				if f.Kind == simrt.KMUTATE {
					f.Data, _ = gen.Corrupt(rng, []byte(specData(&base.c.World, ev.Path)))
				}
				fc.c.World.Faults = append(fc.c.World.Faults, f)
			}
			cases2 = append(cases2, fc)
		}
		// a file read twice (imported along two paths): the second read returns another valid program
		reads := map[string]int{}
		for _, ev := range ioEvents {
			if ev.Op == simrt.OpRead {
				reads[ev.Path]++
			}
		}
		for _, p := range sortedKeys(reads) {
			if reads[p] >= 2 && rng.Chance(60) {
				fc := base
				fc.c.ReturnTrace = false
				fc.meta.Family = "mutate"
				alt, _ := gen.GenProgram(rng.Sub(), gen.RandomFeat(rng), nil, "_alt_")
				fc.c.World.Faults = []*simrt.Fault{{Seq: -1, Op: simrt.OpRead, PathSuffix: p, Nth: 1, Kind: simrt.KMUTATE, Data: []byte(alt)}}
				cases2 = append(cases2, fc)
				st.probes["second_read_differs"]++
				break
			}
		}
	}
	if _, err = c13Exec(r, st, cases2); err != nil {
		return err
	}
	// ---- phase 3: histories: several different programs through ONE transpiler object
	// (totality must not depend on what the object was asked before)
	nh := roundSize / 8
	hists := make([]*simrt.History, nh)
	for i := range hists {
		hists[i] = c13GenHistory(r, rng.Sub())
	}
	type hout struct {
		res   []simrt.CallResult
		fatal string
		err   error
	}
	outs := make([]hout, nh)
	parallel(nh, r.Env.Workers, func(i int) {
		outs[i].res, outs[i].fatal, outs[i].err = r.Env.RunHistory(hists[i])
	})
	for i, h := range hists {
		if outs[i].err != nil {
			return outs[i].err
		}
		class, detail := c13JudgeHistory(h, outs[i].res, outs[i].fatal, st)
		if class != "" {
			v := &Violation{Prop: "C13", Class: "history: " + class, Detail: detail, Kind: "history", Plan: jsonOf(h)}
			if r.Known.Match(v) == nil && !r.seenCls[v.Class] {
				v = c13MinimiseHistory(r, h, v)
			}
			r.Report(v)
		}
	}
	return nil
}

// c13GenHistory: 3-10 programs written to the same (or a second) path and
// transpiled one after another by the same transpiler object; function names
// come from a small pool so that different programs define the same names
// with different call edges.
func c13GenHistory(r *Run, rng *gen.Rng) *simrt.History {
	b := c13Budgets()
	h := &simrt.History{World: simrt.WorldSpec{Files: []simrt.FileSpec{{Path: "/sim/x/tsh", Data: []byte("ELF")}, {Path: "/sim/m", Dir: true}}, Cwd: "/sim/m", Exe: "/sim/x/tsh", Budgets: &b}}
	for _, n := range sortedKeys(r.Env.Std) {
		h.World.Files = append(h.World.Files, simrt.FileSpec{Path: "/sim/x/std/" + n, Data: r.Env.Std[n]})
	}
	n := rng.Range(3, 10)
	shared := rng.Chance(80)
	for i := 0; i < n; i++ {
		f := gen.RandomFeat(rng)
		f.Funcs, f.NamePool, f.MaxFuncs = true, true, rng.Range(2, 5)
		f.MaxTop = rng.Range(2, 6)
		src, _ := gen.GenProgram(rng.Sub(), f, nil, "_")
		if rng.Chance(20) {
			b, _ := gen.Corrupt(rng, []byte(src))
			src = string(b)
		}
		p := "/sim/m/" + rng.Pick([]string{"main.tsh", "main.tsh", "other.tsh"})
		obj := 0
		if !shared && rng.Chance(50) {
			obj = i
		}
		h.Steps = append(h.Steps, simrt.Step{Kind: "write", File: p, Data: []byte(src)},
			simrt.Step{Kind: "transpile", Obj: obj, Path: p, Target: rng.Pick([]string{"bash", "batch"}), MapMode: rng.Pick([]string{"canonical", "shuffle"}), MapSeed: rng.U64()})
	}
	return h
}

func c13JudgeHistory(h *simrt.History, res []simrt.CallResult, fatal string, st *c13Stats) (string, string) {
	nT := 0
	for i := range res {
		if h.Steps[i].Kind != "transpile" {
			continue
		}
		nT++
		if st != nil {
			st.evals++
			st.families["history"]++
			st.ticks += res[i].Ticks
			st.ios += int64(res[i].IO)
		}
		class, ok := c13Classify(&res[i])
		if st != nil && nT > 1 {
			st.triples["history|"+class+"|call"+fmt.Sprint(min(nT, 4))] = true
		}
		if !ok {
			return class, fmt.Sprintf("call %d of a history on one transpiler object: kind=%s err=%q panic=%q at %s", nT, res[i].Kind, res[i].Err, res[i].PanicMsg, res[i].PanicTop)
		}
	}
	if fatal != "" || len(res) != len(h.Steps) {
		if st != nil {
			st.probes["fatal_worker_death"]++
		}
		l := fatal
		if i := strings.Index(l, "\n"); i > 0 {
			l = l[:i]
		}
		return "fatal: " + normalise(l), fmt.Sprintf("the worker process died during call %d of a history on one transpiler object: %s", nT+1, fatal)
	}
	return "", ""
}

func c13MinimiseHistory(r *Run, h *simrt.History, v *Violation) *Violation {
	probe := func(c *simrt.History) string {
		res, fatal, err := r.Env.RunHistory(c)
		if err != nil {
			return "machinery"
		}
		cls, _ := c13JudgeHistory(c, res, fatal, nil)
		if cls == "" {
			return "ok"
		}
		return "history: " + cls
	}
	if probe(h) != v.Class {
		v.Note = "did not reproduce in a fresh process; original plan kept"
		return v
	}
	type pair struct{ w, t simrt.Step }
	pairs := []pair{}
	for i := 0; i+1 < len(h.Steps); i += 2 {
		pairs = append(pairs, pair{h.Steps[i], h.Steps[i+1]})
	}
	build := func(ps []pair) *simrt.History {
		c := &simrt.History{World: h.World}
		for _, p := range ps {
			c.Steps = append(c.Steps, p.w, p.t)
		}
		return c
	}
	budget := 80
	pairs = ddmin(pairs, func(cand []pair) bool { return probe(build(cand)) == v.Class }, &budget)
	// shrink the programs by lines
	for i := range pairs {
		idx := i
		items := ddmin(strings.SplitAfter(string(pairs[i].w.Data), "\n"), func(cand []string) bool {
			ps := append([]pair{}, pairs...)
			ps[idx].w.Data = []byte(strings.Join(cand, ""))
			return probe(build(ps)) == v.Class
		}, &budget)
		pairs[i].w.Data = []byte(strings.Join(items, ""))
	}
	m := build(pairs)
	if probe(m) == v.Class {
		v.Plan = jsonOf(m)
		v.Min = true
		progs := []string{}
		for _, p := range pairs {
			progs = append(progs, fmt.Sprintf("%s(%s)=%q", path.Base(p.w.File), p.t.Target, tail(string(p.w.Data), 300)))
		}
		v.Detail += " | minimised to " + fmt.Sprint(len(pairs)) + " calls: " + strings.Join(progs, " ; ")
	}
	return v
}

func specData(w *simrt.WorldSpec, p string) string {
	for _, f := range w.Files {
		if f.Path == p {
			return string(f.Data)
		}
	}
	return ""
}

func c13Exec(r *Run, st *c13Stats, cases []c13Case) ([]simrt.CallResult, error) {
	plain := make([]simrt.Case, len(cases))
	for i := range cases {
		plain[i] = cases[i].c
	}
	res, err := r.Env.RunCases(plain)
	if err != nil {
		return nil, err
	}
	for i := range res {
		c13Account(r, st, &cases[i], &res[i])
	}
	return res, nil
}

func c13Account(r *Run, st *c13Stats, c *c13Case, res *simrt.CallResult) {
	st.evals++
	st.families[c.meta.Family]++
	st.shapes[c.meta.Shape]++
	st.ticks += res.Ticks
	st.ios += int64(res.IO)
	if res.Ticks > st.maxTicks {
		st.maxTicks = res.Ticks
	}
	if res.IO > st.maxIO {
		st.maxIO = res.IO
	}
	if res.MaxDepth > st.maxDepth {
		st.maxDepth = res.MaxDepth
	}
	class, ok := c13Classify(res)
	norm := class
	if res.Kind == "error" {
		norm = "error: " + normalise(res.Err)
	}
	st.outcomes[norm]++
	if res.Kind == "script" {
		st.accepted++
		st.famAccepted[c.meta.Family]++
	} else if res.Kind == "error" {
		st.rejected++
	}
	if ok {
		if res.Ticks > st.maxOkTicks {
			st.maxOkTicks = res.Ticks
		}
		if res.IO > st.maxOkIO {
			st.maxOkIO = res.IO
		}
		if res.MaxDepth > st.maxOkDepth {
			st.maxOkDepth = res.MaxDepth
		}
	}
	firedKinds := []string{}
	for i, f := range c.c.World.Faults {
		st.faultsConf[f.Kind]++
		if i < len(res.FaultsFired) && res.FaultsFired[i] > 0 {
			st.faultsFired[f.Kind] += res.FaultsFired[i]
			firedKinds = append(firedKinds, f.Kind)
			switch f.Op {
			case simrt.OpGetwd:
				st.probes["getwd_fault_fired"]++
			case simrt.OpExecutable:
				st.probes["executable_fault_fired"]++
			case simrt.OpRead:
				if _, isErr := map[string]bool{simrt.KENOENT: true, simrt.KEACCES: true, simrt.KEIO: true, simrt.KEISDIR: true, simrt.KELOOP: true, simrt.KEMFILE: true}[f.Kind]; isErr {
					st.probes["toctou_read_fails_after_stat_ok"]++
				}
			}
		}
	}
	if strings.HasPrefix(c.meta.Shape, "hostile:cycle") {
		st.probes["import_cycle_world"]++
	}
	if !path.IsAbs(c.c.Path) {
		st.probes["relative_main_path"]++
	}
	if res.Kind == "fatal" {
		st.probes["fatal_worker_death"]++
	}
	for _, ev := range res.Trace {
		if strings.Contains(ev.Path, "/std/") && ev.Op == simrt.OpRead {
			st.probes["std_import_world"]++
			break
		}
	}
	if c.meta.Family == "stress" && ok && res.Ticks > st.maxStressTicks {
		st.maxStressTicks = res.Ticks
		st.maxStressWhat = c.meta.Corrupt
	}
	if len(firedKinds) > 0 || c.meta.Corrupt != "" || strings.HasPrefix(c.meta.Shape, "hostile") {
		fk := strings.Join(firedKinds, "+")
		st.triples[norm+"|"+fk+"|"+c.meta.Shape+"|"+c.meta.Corrupt] = true
	}
	if len(st.samples) < 5 && (st.evals%97 == 1) {
		st.samples = append(st.samples, c13Sample(c, res))
	}
	if !ok {
		v := c13Violation(r, c, res, class)
		if r.Known.Match(v) == nil && !r.seenCls[v.Class] {
			v = c13Minimise(r, c, v)
		}
		r.Report(v)
	}
}

func c13Sample(c *c13Case, res *simrt.CallResult) map[string]any {
	files := []string{}
	for _, f := range c.c.World.Files {
		if !strings.Contains(f.Path, "/std/") {
			files = append(files, fmt.Sprintf("%s (%d bytes)", f.Path, len(f.Data)))
		}
	}
	main := specData(&c.c.World, absIn(&c.c.World, c.c.Path))
	if len(main) > 400 {
		main = main[:400] + "…"
	}
	return map[string]any{"family": c.meta.Family, "shape": c.meta.Shape, "corruption": c.meta.Corrupt, "files": files, "path_arg": c.c.Path, "cwd": c.c.World.Cwd,
		"target": c.c.Target, "faults": c.c.World.Faults, "map_mode": c.c.World.MapMode, "main_file": main,
		"outcome": res.Kind, "error": res.Err, "ticks": res.Ticks, "io": res.IO}
}

func absIn(w *simrt.WorldSpec, p string) string {
	if path.IsAbs(p) {
		return path.Clean(p)
	}
	return path.Join(w.Cwd, p)
}

func c13Violation(r *Run, c *c13Case, res *simrt.CallResult, class string) *Violation {
	detail := fmt.Sprintf("family=%s shape=%s corruption=%s target=%s path=%q kind=%s", c.meta.Family, c.meta.Shape, c.meta.Corrupt, c.c.Target, c.c.Path, res.Kind)
	if res.Kind == "panic" {
		detail += fmt.Sprintf(" panic=%q at %s", res.PanicMsg, res.PanicTop)
	}
	if res.Kind == "budget" || res.Kind == "fatal" {
		detail += fmt.Sprintf(" err=%q import_cycle=%v", res.Err, hasImportCycle(c.c.World.Files))
		if hasImportCycle(c.c.World.Files) {
			class += "+import-cycle"
		}
	}
	cc := c.c
	cc.ReturnTrace = false
	return &Violation{Prop: "C13", Class: class, Detail: detail, Kind: "cases", Plan: jsonOf(simrt.WorkerPlan{Mode: "cases", Cases: []simrt.Case{cc}})}
}

// c13Probe re-runs a single case in a fresh worker and returns its class.
func c13Probe(r *Run, c *simrt.Case) (string, *simrt.CallResult) {
	res, err := r.Env.RunCases([]simrt.Case{*c})
	if err != nil || len(res) != 1 {
		return "machinery", nil
	}
	class, ok := c13Classify(&res[0])
	if ok {
		return "ok", &res[0]
	}
	if (res[0].Kind == "budget" || res[0].Kind == "fatal") && hasImportCycle(c.World.Files) {
		class += "+import-cycle"
	}
	return class, &res[0]
}

func c13Minimise(r *Run, c *c13Case, v *Violation) *Violation {
	cur := c.c
	cur.ReturnTrace = false
	if cls, _ := c13Probe(r, &cur); cls != v.Class {
		v.Note = "did not reproduce in a fresh process with class " + v.Class + " (got " + cls + "); original plan kept"
		return v
	}
	// a hang costs the whole tick budget per probe: minimise under a reduced
	// budget (still above anything a passing run needs) and confirm the result
	// under the full one
	full := cur.World.Budgets
	if strings.HasPrefix(v.Class, "budget:ticks") {
		red := c13Budgets()
		red.Ticks = 4_000_000
		cur.World.Budgets = &red
		if cls, _ := c13Probe(r, &cur); cls != v.Class {
			cur.World.Budgets = full
		}
	}
	budget := 250
	same := func(cand simrt.Case) bool {
		budget--
		cls, _ := c13Probe(r, &cand)
		return cls == v.Class
	}
	// 1. drop faults
	for i := 0; i < len(cur.World.Faults) && budget > 0; {
		cand := cur
		cand.World.Faults = append(append([]*simrt.Fault{}, cur.World.Faults[:i]...), cur.World.Faults[i+1:]...)
		if same(cand) {
			cur = cand
		} else {
			i++
		}
	}
	// 2. canonical map order, absolute path
	if cur.World.MapMode != "canonical" {
		cand := cur
		cand.World.MapMode, cand.World.MapSeed = "canonical", 0
		if same(cand) {
			cur = cand
		}
	}
	mainAbs := absIn(&cur.World, cur.Path)
	// 3. drop files
	for i := 0; i < len(cur.World.Files) && budget > 0; {
		if cur.World.Files[i].Path == mainAbs {
			i++
			continue
		}
		cand := cur
		cand.World.Files = append(append([]simrt.FileSpec{}, cur.World.Files[:i]...), cur.World.Files[i+1:]...)
		if same(cand) {
			cur = cand
		} else {
			i++
		}
	}
	// 4. shrink file contents: lines, then tokens
	for i := range cur.World.Files {
		if budget <= 0 || len(cur.World.Files[i].Data) == 0 {
			continue
		}
		for _, split := range []func(string) []string{func(s string) []string { return strings.SplitAfter(s, "\n") }, gen.Tokens} {
			items := split(string(cur.World.Files[i].Data))
			idx := i
			items = ddmin(items, func(cand []string) bool {
				cc := cur
				cc.World.Files = append([]simrt.FileSpec{}, cur.World.Files...)
				cc.World.Files[idx].Data = []byte(strings.Join(cand, ""))
				cls, _ := c13Probe(r, &cc)
				return cls == v.Class
			}, &budget)
			cur.World.Files = append([]simrt.FileSpec{}, cur.World.Files...)
			cur.World.Files[i].Data = []byte(strings.Join(items, ""))
		}
	}
	// 5. drop files once more (imports may have disappeared while shrinking)
	for i := 0; i < len(cur.World.Files) && budget > -40; {
		if cur.World.Files[i].Path == mainAbs {
			i++
			continue
		}
		cand := cur
		cand.World.Files = append(append([]simrt.FileSpec{}, cur.World.Files[:i]...), cur.World.Files[i+1:]...)
		if same(cand) {
			cur = cand
		} else {
			i++
		}
	}
	// final confirmation in a fresh process
	cur.World.Budgets = full
	if cls, res := c13Probe(r, &cur); cls == v.Class {
		v.Plan = jsonOf(simrt.WorkerPlan{Mode: "cases", Cases: []simrt.Case{cur}})
		v.Min = true
		files := []string{}
		for _, f := range cur.World.Files {
			if !strings.Contains(f.Path, "/std/") && len(f.Data) < 300 {
				files = append(files, fmt.Sprintf("%s=%q", f.Path, string(f.Data)))
			}
		}
		sort.Strings(files)
		v.Detail += " | minimised: " + strings.Join(files, " ; ")
		if res != nil && res.Kind == "panic" {
			v.Detail += fmt.Sprintf(" | panic=%q", res.PanicMsg)
		}
	}
	return v
}

// replayC13 re-executes a replay file and reports whether it still fails.
func replayC13(r *Run, v *Violation) (bool, string, error) {
	if v.Kind == "history" {
		var h simrt.History
		if err := json.Unmarshal(v.Plan, &h); err != nil {
			return false, "", machinery("bad replay plan: %v", err)
		}
		res, fatal, err := r.Env.RunHistory(&h)
		if err != nil {
			return false, "", err
		}
		if cls, detail := c13JudgeHistory(&h, res, fatal, nil); cls != "" {
			return true, "class=history: " + cls + " " + detail, nil
		}
		return false, "no violation on replay", nil
	}
	var plan simrt.WorkerPlan
	if err := json.Unmarshal(v.Plan, &plan); err != nil {
		return false, "", machinery("bad replay plan: %v", err)
	}
	for i := range plan.Cases {
		cls, res := c13Probe(r, &plan.Cases[i])
		if cls == "machinery" {
			return false, "", machinery("replay could not run")
		}
		if cls != "ok" {
			return true, fmt.Sprintf("class=%s kind=%s err=%q panic=%q", cls, res.Kind, res.Err, res.PanicMsg), nil
		}
	}
	return false, "no violation on replay", nil
}

package main

import (
	"crypto/sha256"
	"encoding/hex"
	"encoding/json"
	"fmt"
	"os"
	"path/filepath"
	"regexp"
	"sort"
	"strings"
	"time"
)

// ---------------------------------------------------------------- run context

type Run struct {
	Prop    string
	Tier    string
	Seed    uint64
	Budget  time.Duration
	Start   time.Time
	Env     *Env
	Known   *KnownFile
	Ev      *Evidence
	Viol    []*Violation // unlisted violations
	KnownHit map[string]int
	seenCls map[string]bool
}

func (r *Run) Left() time.Duration { return r.Budget - time.Since(r.Start) }

// ---------------------------------------------------------------- violations

type Violation struct {
	Prop   string          `json:"property"`
	Class  string          `json:"class"`
	Detail string          `json:"detail"`
	Seed   uint64          `json:"seed"`
	Kind   string          `json:"kind"` // cases | history | tsh | script
	Plan   json.RawMessage `json:"plan"`
	Min    bool            `json:"minimised"`
	Note   string          `json:"note,omitempty"`
	Uncontrolled bool      `json:"uncontrolled,omitempty"`
}

func shortHash(s string) string {
	h := sha256.Sum256([]byte(s))
	return hex.EncodeToString(h[:5])
}

// Report handles one violation: known finding or VIOLATION line + replay file.
// It is called once per distinct class per run.
func (r *Run) Report(v *Violation) {
	if r.seenCls == nil {
		r.seenCls = map[string]bool{}
		r.KnownHit = map[string]int{}
	}
	if k := r.Known.Match(v); k != nil {
		r.KnownHit[k.ID]++
		if !r.seenCls["known:"+k.ID] {
			r.seenCls["known:"+k.ID] = true
			fmt.Printf("KNOWN-FINDING: property=%s %s\n", v.Prop, k.Text)
		}
		return
	}
	if r.seenCls[v.Class] {
		return
	}
	r.seenCls[v.Class] = true
	v.Seed = r.Seed
	dir := filepath.Join(outRoot(), "replays", v.Prop)
	os.MkdirAll(dir, 0o755)
	path := filepath.Join(dir, fmt.Sprintf("%d-%s.json", r.Seed, shortHash(v.Class)))
	raw, _ := json.MarshalIndent(v, "", " ")
	os.WriteFile(path, raw, 0o644)
	r.Viol = append(r.Viol, v)
	fmt.Printf("VIOLATION property=%s replay=%s\n", v.Prop, path)
	fmt.Printf("  class: %s\n  detail: %s\n", v.Class, strings.ReplaceAll(tail(v.Detail, 600), "\n", "\n          "))
}

// ---------------------------------------------------------------- known findings

type KnownEntry struct {
	ID       string `json:"id"`
	Property string `json:"property"`
	Text     string `json:"text"`      // what fails (printed after KNOWN-FINDING:)
	ClassRe  string `json:"class_re"`  // regexp on the violation class
	DetailRe string `json:"detail_re"` // optional regexp on the detail
	re, dre  *regexp.Regexp
}

type KnownFile struct {
	Findings []*KnownEntry `json:"findings"`
	Fixed    []string      `json:"fixed"`
}

func LoadKnown(verif string) (*KnownFile, error) {
	k := &KnownFile{}
	raw, err := os.ReadFile(filepath.Join(verif, "known_findings.json"))
	if err != nil {
		return nil, machinery("known_findings.json: %v", err)
	}
	if err := json.Unmarshal(raw, k); err != nil {
		return nil, machinery("known_findings.json: %v", err)
	}
	for _, f := range k.Findings {
		if f.re, err = regexp.Compile(f.ClassRe); err != nil {
			return nil, machinery("known_findings.json: %v", err)
		}
		if f.DetailRe != "" {
			if f.dre, err = regexp.Compile(f.DetailRe); err != nil {
				return nil, machinery("known_findings.json: %v", err)
			}
		}
	}
	return k, nil
}

func (k *KnownFile) Match(v *Violation) *KnownEntry {
	if k == nil {
		return nil
	}
	for _, f := range k.Findings {
		if f.Property == v.Prop && f.re.MatchString(v.Class) && (f.dre == nil || f.dre.MatchString(v.Detail)) {
			return f
		}
	}
	return nil
}

// ---------------------------------------------------------------- evidence

type Coverage struct {
	Evaluations        int            `json:"evaluations"`
	DistinctNontrivial int            `json:"distinct_nontrivial"`
	Rule               string         `json:"rule"`
	Samples            []any          `json:"samples"`
	Exhaustive         bool           `json:"exhaustive"`
	Extra              map[string]any `json:"-"`
}

type Evidence struct {
	PropertyID  string         `json:"property_id"`
	Tier        string         `json:"tier"`
	Seed        int64          `json:"seed"`
	Level       string         `json:"level"`
	Coverage    map[string]any `json:"coverage"`
	Assumptions []string       `json:"assumptions"`
	WallS       float64        `json:"wall_s"`
	Violations  int            `json:"violations"`
	Extra       map[string]any `json:"details"`
}

func (r *Run) WriteEvidence(cov map[string]any, extra map[string]any, assumptions []string, level string) error {
	ev := &Evidence{
		PropertyID: r.Prop, Tier: r.Tier, Seed: int64(r.Seed), Level: level, Coverage: cov,
		Assumptions: assumptions, WallS: time.Since(r.Start).Seconds(), Violations: len(r.Viol), Extra: extra,
	}
	if ev.Extra == nil {
		ev.Extra = map[string]any{}
	}
	known := []string{}
	for id, n := range r.KnownHit {
		known = append(known, fmt.Sprintf("%s x%d", id, n))
	}
	sort.Strings(known)
	ev.Extra["known_findings_hit"] = known
	if r.Env != nil {
		ev.Extra["instrumentation"] = map[string]any{
			"sites": r.Env.Report.Sites, "site_list": r.Env.Report.SiteList, "unsimulated_constructs": r.Env.Report.Unsimulated,
			"packages": r.Env.Report.Packages, "go_directive_of_copy": r.Env.Report.GoDirective, "build_s": r.Env.BuildS,
		}
		ev.Extra["os_processes_spawned"] = r.Env.procs.Load()
	}
	raw, err := json.MarshalIndent(ev, "", " ")
	if err != nil {
		return machinery("evidence: %v", err)
	}
	dir := filepath.Join(outRoot(), "evidence")
	os.MkdirAll(dir, 0o755)
	return os.WriteFile(filepath.Join(dir, r.Prop+".json"), raw, 0o644)
}

// outRoot is where evidence and replay files go (VERIF_OUT redirects them
// for self-tests that run checks against scratch copies).
func outRoot() string {
	if v := os.Getenv("VERIF_OUT"); v != "" {
		return v
	}
	return verifRoot()
}

// ---------------------------------------------------------------- misc

var (
	numRe   = regexp.MustCompile(`\d+`)
	quoteRe = regexp.MustCompile(`"[^"]*"|'[^']*'`)
	pathRe  = regexp.MustCompile(`/[^\s:"']+`)
)

// normalise replaces numbers, quoted names and paths by placeholders.
func normalise(s string) string {
	for _, m := range []string{"/w/my proj", "/sim/m", "/a/b/c/d", "/m/", "/sim/x", "/opt/tsh/bin", "/home/u/.dotfiles/p", "/w/proj-1.2/src"} {
		s = strings.ReplaceAll(s, m, "/M")
	}
	s = strings.ReplaceAll(s, "a b/", "ab/")
	s = strings.ReplaceAll(s, "my prog", "myprog")
	s = quoteRe.ReplaceAllString(s, "Q")
	s = pathRe.ReplaceAllString(s, "P")
	s = numRe.ReplaceAllString(s, "N")
	if len(s) > 160 {
		s = s[:160]
	}
	return s
}

// ddmin minimises a list of items while test(items) stays true.
func ddmin[T any](items []T, test func([]T) bool, budget *int) []T {
	n := 2
	for len(items) >= 1 && *budget > 0 {
		if n > len(items) {
			n = len(items)
		}
		size := (len(items) + n - 1) / n
		reduced := false
		for lo := 0; lo < len(items) && *budget > 0; lo += size {
			hi := lo + size
			if hi > len(items) {
				hi = len(items)
			}
			cand := append(append([]T{}, items[:lo]...), items[hi:]...)
			*budget--
			if test(cand) {
				items = cand
				if n > 2 {
					n--
				}
				reduced = true
				break
			}
		}
		if !reduced {
			if size <= 1 {
				break
			}
			n *= 2
		}
	}
	return items
}

func sortedKeys[V any](m map[string]V) []string {
	ks := make([]string, 0, len(m))
	for k := range m {
		ks = append(ks, k)
	}
	sort.Strings(ks)
	return ks
}

func jsonOf(v any) json.RawMessage {
	b, _ := json.Marshal(v)
	return b
}

package main

func selftest(args []string) error {
	return machinery("selftest %v: not implemented yet", args)
}

package main

import (
	"bytes"
	"crypto/sha256"
	"encoding/hex"
	"encoding/json"
	"errors"
	"fmt"
	"io/fs"
	"os"
	"os/exec"
	"path"
	"path/filepath"
	"sort"
	"strings"
	"syscall"
	"time"

	"verifsim/gen"
	"verifsim/simrt"
)

// selftest <determinism|conformance|transparency|sensitivity> [options]
// A failing self-test is a defect of the machinery: exit status 2.
func selftest(args []string) error {
	switch args[0] {
	case "sensitivity":
		return selftestSensitivity(args[1:])
	case "determinism":
		return selftestDeterminism(args[1:])
	case "conformance":
		return selftestConformance(args[1:])
	case "transparency":
		return selftestTransparency(args[1:])
	case "all":
		for _, f := range []func([]string) error{selftestConformance, selftestTransparency, selftestDeterminism} {
			if err := f(nil); err != nil {
				return err
			}
		}
		return nil
	}
	return machinery("unknown selftest %q", args[0])
}

// ---------------------------------------------------------------- sensitivity

type mutantEntry struct {
	Name        string  `json:"name"`
	Property    string  `json:"property"`
	Description string  `json:"description"`
	SuitePasses *bool   `json:"suite_passes,omitempty"`
	Detected    *bool   `json:"detected,omitempty"`
	DetectS     float64 `json:"detect_s,omitempty"`
	Class       string  `json:"class,omitempty"`
	Base        string  `json:"base,omitempty"` // newest /repo commit the patch applies to (seeded changes are diffs against the HEAD of their time)
	Note        string  `json:"note,omitempty"`
}

func copyTree(src, dst string) error {
	return filepath.WalkDir(src, func(p string, d fs.DirEntry, err error) error {
		if err != nil {
			return err
		}
		rel, _ := filepath.Rel(src, p)
		if d.IsDir() {
			if d.Name() == ".git" {
				return filepath.SkipDir
			}
			return os.MkdirAll(filepath.Join(dst, rel), 0o755)
		}
		if !d.Type().IsRegular() {
			return nil
		}
		b, err := os.ReadFile(p)
		if err != nil {
			return err
		}
		return os.WriteFile(filepath.Join(dst, rel), b, 0o644)
	})
}

// selftestSensitivity applies every mutants/*.patch (or seeded/*/patch.diff
// with --seeded) to a scratch copy of the working tree and runs the owning
// check against it.
func selftestSensitivity(args []string) error {
	suite, seeded, benign := false, false, false
	only := ""
	budget := "90"
	for i := 0; i < len(args); i++ {
		switch args[i] {
		case "--suite":
			suite = true
		case "--seeded":
			seeded = true
		case "--benign":
			benign = true
		case "--only":
			i++
			only = args[i]
		case "--budget":
			i++
			budget = args[i]
		}
	}
	verif := verifRoot()
	var entries []*mutantEntry
	indexPath := filepath.Join(verif, "mutants", "INDEX.json")
	patchOf := func(e *mutantEntry) string { return filepath.Join(verif, "mutants", e.Name+".patch") }
	if seeded {
		indexPath = filepath.Join(verif, "seeded", "INDEX.json")
		patchOf = func(e *mutantEntry) string { return filepath.Join(verif, "seeded", e.Name, "patch.diff") }
	}
	raw, err := os.ReadFile(indexPath)
	if err != nil {
		return machinery("%v", err)
	}
	if err := json.Unmarshal(raw, &entries); err != nil {
		return machinery("%s: %v", indexPath, err)
	}
	self, _ := os.Executable()
	type job struct{ e *mutantEntry }
	results := make([]string, len(entries))
	// the checks use all cores themselves: run mutants one after another
	for i, e := range entries {
		if only != "" && !strings.Contains(e.Name, only) {
			continue
		}
		if (e.Property == "BENIGN") != benign {
			continue
		}
		scratch, err := os.MkdirTemp("", "verifmut-")
		if err != nil {
			return machinery("%v", err)
		}
		tree := filepath.Join(scratch, "repo")
		outDir := filepath.Join(scratch, "out")
		os.MkdirAll(outDir, 0o755)
		if err := copyTree(repoRoot(), tree); err != nil {
			os.RemoveAll(scratch)
			return machinery("copy: %v", err)
		}
		onBase := ""
		if o, err := run(tree, os.Environ(), "git", "apply", "--whitespace=nowarn", patchOf(e)); err != nil {
			// the working tree has moved on (a later fix touched the same lines): fall back to the
			// newest commit the patch applies to
			applied := false
			if e.Base != "" {
				os.RemoveAll(tree)
				os.MkdirAll(tree, 0o755)
				if _, err2 := run(repoRoot(), os.Environ(), "sh", "-c", fmt.Sprintf("git archive %s | tar -x -C %s", e.Base, tree)); err2 == nil {
					if _, err3 := run(tree, os.Environ(), "git", "apply", "--whitespace=nowarn", patchOf(e)); err3 == nil {
						applied = true
						onBase = " (on base " + e.Base + ")"
						// bring the later repairs of /repo along where they fit (hunks that collide with the
						// seeded change are skipped), so that a defect repaired since is not found in its place
						run(tree, os.Environ(), "sh", "-c", fmt.Sprintf("git -C %s diff %s HEAD | patch -p1 -f -s --no-backup-if-mismatch -r - >/dev/null 2>&1", repoRoot(), e.Base))
						if _, berr := run(tree, goEnv(), "go", "build", "./..."); berr != nil {
							os.RemoveAll(tree)
							os.MkdirAll(tree, 0o755)
							run(repoRoot(), os.Environ(), "sh", "-c", fmt.Sprintf("git archive %s | tar -x -C %s", e.Base, tree))
							run(tree, os.Environ(), "git", "apply", "--whitespace=nowarn", patchOf(e))
						} else {
							onBase += "+later fixes"
						}
					}
				}
			}
			if !applied {
				os.RemoveAll(scratch)
				results[i] = fmt.Sprintf("%-40s PATCH DOES NOT APPLY: %s", e.Name, firstLines(o, 2))
				fmt.Println(results[i])
				continue
			}
		}
		if suite {
			o, err := run(tree, goEnv(), "go", "test", "-mod=mod", "-vet=off", "-count=1", "-timeout", "25m", "./...")
			ok := err == nil
			e.SuitePasses = &ok
			if !ok {
				fmt.Printf("%-40s suite FAILS: %s\n", e.Name, firstLines(tail(o, 600), 6))
			}
		}
		if benign {
			// a legitimate change: every check must stay silent (exit 0)
			t0 := time.Now()
			verdict := "silent"
			for _, prop := range []string{"C13", "C14", "C17", "C19"} {
				cmd := exec.Command(self, "check", prop, "quick")
				cmd.Env = append(os.Environ(), "VERIF_REPO="+tree, "VERIF_OUT="+outDir, "VERIF_BUDGET_S="+budget, "VERIF_ROOT="+verif)
				var out bytes.Buffer
				cmd.Stdout, cmd.Stderr = &out, &out
				err := cmd.Run()
				code := 0
				var ee *exec.ExitError
				if errors.As(err, &ee) {
					code = ee.ExitCode()
				}
				if code != 0 {
					verdict = fmt.Sprintf("FALSE ALARM or failure: %s exit %d: %s", prop, code, firstLines(tail(out.String(), 700), 6))
					break
				}
			}
			silent := verdict == "silent"
			e.Detected = &silent
			e.DetectS = time.Since(t0).Seconds()
			e.Class = verdict
			sp := ""
			if e.SuitePasses != nil {
				sp = fmt.Sprintf(" suite_passes=%v", *e.SuitePasses)
			}
			fmt.Printf("%-44s BENIGN %5.1fs%s  %s\n", e.Name, e.DetectS, sp, verdict)
			os.RemoveAll(scratch)
			continue
		}
		t0 := time.Now()
		cmd := exec.Command(self, "check", e.Property, "quick")
		cmd.Env = append(os.Environ(), "VERIF_REPO="+tree, "VERIF_OUT="+outDir, "VERIF_BUDGET_S="+budget, "VERIF_ROOT="+verif)
		var out bytes.Buffer
		cmd.Stdout, cmd.Stderr = &out, &out
		err = cmd.Run()
		code := 0
		var ee *exec.ExitError
		if errors.As(err, &ee) {
			code = ee.ExitCode()
		}
		det := code == 1 && strings.Contains(out.String(), "VIOLATION property="+e.Property)
		e.Detected = &det
		e.DetectS = time.Since(t0).Seconds()
		e.Class = ""
		for _, l := range strings.Split(out.String(), "\n") {
			if strings.HasPrefix(strings.TrimSpace(l), "class:") && e.Class == "" {
				e.Class = strings.TrimSpace(strings.TrimPrefix(strings.TrimSpace(l), "class:"))
			}
		}
		status := "MISSED"
		if det {
			status = "caught"
		}
		if code == 2 {
			status = "MACHINERY(exit 2): " + firstLines(tail(out.String(), 400), 3)
		}
		sp := ""
		if e.SuitePasses != nil {
			sp = fmt.Sprintf(" suite_passes=%v", *e.SuitePasses)
		}
		results[i] = fmt.Sprintf("%-40s %s %-7s %5.1fs%s  %s%s", e.Name, e.Property, status, e.DetectS, sp, e.Class, onBase)
		fmt.Println(results[i])
		os.RemoveAll(scratch)
	}
	if only == "" {
		raw, _ := json.MarshalIndent(entries, "", " ")
		os.WriteFile(indexPath, raw, 0o644)
	}
	return nil
}

// ---------------------------------------------------------------- conformance

// selftestConformance applies seeded operation sequences to MemFS and to a
// real temporary directory and compares error class, kind, size and content
// step by step.
func selftestConformance(args []string) error {
	rng := gen.NewRng(envSeed() + 77)
	root, err := os.MkdirTemp("", "verifconf-")
	if err != nil {
		return machinery("%v", err)
	}
	defer os.RemoveAll(root)
	class := func(err error) string {
		if err == nil {
			return "ok"
		}
		var en syscall.Errno
		if errors.As(err, &en) {
			switch en {
			case syscall.ENOENT:
				return "ENOENT"
			case syscall.ENOTDIR:
				return "ENOTDIR"
			case syscall.EISDIR:
				return "EISDIR"
			case syscall.EEXIST:
				return "EEXIST"
			case syscall.ENOTEMPTY:
				return "ENOTEMPTY"
			case syscall.EINVAL:
				return "EINVAL"
			}
			return en.Error()
		}
		return "other:" + err.Error()
	}
	steps, seqs := 0, 300
	names := []string{"a", "b", "d", "d/x", "d/y", "d/e", "d/e/z", "f.txt", "d/../a", "./b", "d/./x", "a/under-file", "missing/deep/file"}
	for s := 0; s < seqs; s++ {
		real := filepath.Join(root, fmt.Sprintf("s%d", s))
		os.MkdirAll(real, 0o755)
		w := simrt.NewWorld(&simrt.WorldSpec{Files: []simrt.FileSpec{{Path: "/r", Dir: true}}, Cwd: "/r"})
		simrt.W = w
		for k := 0; k < 40; k++ {
			steps++
			n := rng.Pick(names)
			sp, rp := path.Join("/r", n), filepath.Join(real, n)
			// keep ".." and "." components: Join cleans, so add them back textually
			if strings.Contains(n, "..") || strings.HasPrefix(n, "./") || strings.Contains(n, "/./") {
				sp, rp = "/r/"+n, real+"/"+n
			}
			var e1, e2 error
			var d1, d2 string
			m := ""
			op := rng.Intn(13)
			switch op {
			case 11:
				// hard link
				m = rng.Pick(names)
				e1 = simrt.Link(path.Join("/r", m), sp)
				e2 = os.Link(filepath.Join(real, m), rp)
			case 12:
				// identity of two names (stat follows symbolic links)
				m = rng.Pick(names)
				a1, ea1 := simrt.Stat(sp)
				b1, eb1 := simrt.Stat(path.Join("/r", m))
				a2, ea2 := os.Stat(rp)
				b2, eb2 := os.Stat(filepath.Join(real, m))
				if ea1 == nil && eb1 == nil && ea2 == nil && eb2 == nil {
					d1, d2 = fmt.Sprint(simrt.SameFile(a1, b1)), fmt.Sprint(os.SameFile(a2, b2))
				} else {
					d1, d2 = fmt.Sprint(ea1 == nil, eb1 == nil), fmt.Sprint(ea2 == nil, eb2 == nil)
				}
			case 8:
				// symbolic link with a relative or absolute target
				m = rng.Pick(names)
				t1, t2 := m, m
				if rng.Chance(40) {
					t1, t2 = path.Join("/r", m), filepath.Join(real, m)
				}
				e1 = simrt.Symlink(t1, sp)
				e2 = os.Symlink(t2, rp)
			case 9:
				var i1, i2 fs.FileInfo
				i1, e1 = simrt.Lstat(sp)
				i2, e2 = os.Lstat(rp)
				if e1 == nil && e2 == nil {
					d1 = fmt.Sprintf("%v %v", i1.IsDir(), i1.Mode()&fs.ModeSymlink != 0)
					d2 = fmt.Sprintf("%v %v", i2.IsDir(), i2.Mode()&fs.ModeSymlink != 0)
				}
			case 10:
				d1, e1 = simrt.Readlink(sp)
				d2, e2 = os.Readlink(rp)
				d2 = strings.Replace(d2, real, "/r", 1)
			case 0:
				data := []byte(fmt.Sprintf("data-%d", rng.Intn(1000)))
				e1 = simrt.WriteFile(sp, data, 0o644)
				e2 = os.WriteFile(rp, data, 0o644)
			case 1:
				var b1, b2 []byte
				b1, e1 = simrt.ReadFile(sp)
				b2, e2 = os.ReadFile(rp)
				d1, d2 = string(b1), string(b2)
			case 2:
				var i1, i2 fs.FileInfo
				i1, e1 = simrt.Stat(sp)
				i2, e2 = os.Stat(rp)
				if e1 == nil && e2 == nil {
					d1 = fmt.Sprintf("%v %d", i1.IsDir(), sizeIfFile(i1))
					d2 = fmt.Sprintf("%v %d", i2.IsDir(), sizeIfFile(i2))
				}
			case 3:
				e1 = simrt.Mkdir(sp, 0o755)
				e2 = os.Mkdir(rp, 0o755)
			case 4:
				e1 = simrt.MkdirAll(sp, 0o755)
				e2 = os.MkdirAll(rp, 0o755)
			case 5:
				e1 = simrt.Remove(sp)
				e2 = os.Remove(rp)
			case 6:
				m = rng.Pick(names)
				if path.Clean(m) == path.Clean(n) {
					continue // renaming a path onto itself: Go's textual special cases are not modelled
				}
				e1 = simrt.Rename(sp, path.Join("/r", m))
				e2 = os.Rename(rp, filepath.Join(real, m))
			case 7:
				var l1, l2 []fs.DirEntry
				l1, e1 = simrt.ReadDir(sp)
				l2, e2 = os.ReadDir(rp)
				a, b := []string{}, []string{}
				for _, x := range l1 {
					a = append(a, fmt.Sprintf("%s:%v", x.Name(), x.IsDir()))
				}
				for _, x := range l2 {
					b = append(b, fmt.Sprintf("%s:%v", x.Name(), x.IsDir()))
				}
				d1, d2 = strings.Join(a, ","), strings.Join(b, ",")
			}
			c1, c2 := class(e1), class(e2)
			// renaming a path onto itself or into its own subtree: kernel says EINVAL for the latter; MemFS does not model it
			if op == 6 && (c2 == "EINVAL" || c1 != c2 && strings.HasPrefix(c2, "other")) {
				simrt.W = nil
				goto nextSeq
			}
			if op == 6 && c1 != "ok" && c2 != "ok" {
				// both refuse: which of two failing conditions the kernel reports first is not modelled
				continue
			}
			if c1 == c2 && d1 == d2 {
				// the whole trees must agree after every step
				want := []string{}
				filepath.WalkDir(real, func(p string, d fs.DirEntry, err error) error {
					if err != nil || p == real {
						return nil
					}
					rel, _ := filepath.Rel(real, p)
					k := "f"
					if d.IsDir() {
						k = "d"
					}
					if d.Type()&fs.ModeSymlink != 0 {
						k = "l"
					}
					want = append(want, k+":/r/"+rel)
					return nil
				})
				got := []string{}
				for _, x := range imagePaths(w) {
					if strings.Contains(x, ":/r/") {
						got = append(got, x)
					}
				}
				sort.Strings(want)
				sort.Strings(got)
				if strings.Join(want, " ") != strings.Join(got, " ") {
					simrt.W = nil
					return machinery("MemFS conformance: sequence %d step %d op %d on %q (-> %q) both %s, but trees differ: MemFS %v, kernel %v", s, k, op, n, m, c1, got, want)
				}
			}
			if c1 != c2 || d1 != d2 {
				simrt.W = nil
				return machinery("MemFS conformance: sequence %d step %d op %d on %q (-> %q): MemFS %s %q, kernel %s %q; image %v", s, k, op, n, m, c1, d1, c2, d2, imagePaths(w))
			}
		}
	nextSeq:
		simrt.W = nil
	}
	fmt.Printf("selftest conformance: %d sequences, %d steps compared MemFS vs kernel: identical\n", seqs, steps)
	return nil
}

func imagePaths(w *simrt.World) []string {
	out := []string{}
	for _, f := range w.Image() {
		k := "f"
		if f.Dir {
			k = "d"
		}
		if f.Link != "" {
			k = "l"
		}
		out = append(out, k+":"+f.Path)
	}
	return out
}

func sizeIfFile(i fs.FileInfo) int64 {
	if i.IsDir() {
		return 0
	}
	return i.Size()
}

// ---------------------------------------------------------------- transparency

// selftestTransparency materialises fault-free simulated worlds in a real
// directory and compares the un-instrumented library / command with what the
// instrumented code produced in simulation.
func selftestTransparency(args []string) error {
	env, err := NewEnv()
	if err != nil {
		return err
	}
	defer env.Close()
	// un-instrumented driver: a copy of the working tree plus a tiny main
	drv := filepath.Join(env.Dir, "plain")
	if err := copyTree(env.Repo, drv); err != nil {
		return machinery("%v", err)
	}
	os.MkdirAll(filepath.Join(drv, "zz_driver"), 0o755)
	mod := env.Report.Module
	driver := `package main

import (
	"encoding/json"
	"os"

	"` + mod + `/converters/bash"
	"` + mod + `/converters/batch"
	"` + mod + `/transpiler"
)

func main() {
	var conv transpiler.Converter = bash.New()
	if os.Args[2] == "batch" {
		conv = batch.New()
	}
	t := transpiler.New()
	out := map[string]any{}
	func() {
		defer func() {
			if r := recover(); r != nil {
				out["panic"] = true
			}
		}()
		s, err := t.Transpile(os.Args[1], conv)
		out["script"] = s
		out["err"] = err != nil
	}()
	json.NewEncoder(os.Stdout).Encode(out)
}
`
	os.WriteFile(filepath.Join(drv, "zz_driver", "main.go"), []byte(driver), 0o644)
	exeDir := filepath.Join(env.Dir, "realexe")
	os.MkdirAll(filepath.Join(exeDir, "std"), 0o755)
	for n, b := range env.Std {
		os.WriteFile(filepath.Join(exeDir, "std", n), b, 0o644)
	}
	if o, err := run(drv, goEnv(), "go", "build", "-o", filepath.Join(exeDir, "driver"), "./zz_driver"); err != nil {
		return machinery("driver build: %v %s", err, tail(o, 800))
	}
	if o, err := run(drv, goEnv(), "go", "build", "-o", filepath.Join(exeDir, "tsh"), "."); err != nil {
		return machinery("tsh build: %v %s", err, tail(o, 800))
	}
	rng := gen.NewRng(envSeed() + 99)
	corpus := gen.HarvestCorpus(env.Repo)
	nLib, nTsh := 120, 60
	// --- library
	cases := []simrt.Case{}
	worlds := []*gen.GenWorld{}
	for i := 0; i < nLib; i++ {
		gw := gen.NewWorld(rng.Sub(), gen.WorldOpts{MaxFiles: 4, StdPct: 10, AllowStd: true, Hostile: true, Corpus: corpus, CorpusPct: 30, SmallFeats: true})
		if rng.Chance(30) {
			data, _ := gen.Corrupt(rng, gw.Get(gw.Main))
			gw.Set(gw.Main, data)
		}
		worlds = append(worlds, gw)
		mount := filepath.Join(env.Dir, "realfs", fmt.Sprintf("w%d", i))
		spec := simrt.WorldSpec{Files: c13World(gw, env, mount, exeDir), Cwd: mount, Exe: filepath.Join(exeDir, "driver"), MapMode: "canonical"}
		cases = append(cases, simrt.Case{World: spec, Path: filepath.Join(mount, gw.Main), Target: rng.Pick([]string{"bash", "batch"}), ReturnScript: true})
	}
	res, err := env.RunCases(cases)
	if err != nil {
		return err
	}
	for i, c := range cases {
		for _, f := range c.World.Files {
			if strings.HasPrefix(f.Path, exeDir) {
				continue
			}
			os.MkdirAll(filepath.Dir(f.Path), 0o755)
			os.WriteFile(f.Path, f.Data, 0o644)
		}
		cmd := exec.Command(filepath.Join(exeDir, "driver"), c.Path, c.Target)
		cmd.Dir = c.World.Cwd
		var so bytes.Buffer
		cmd.Stdout = &so
		cmd.Run()
		var out struct {
			Script string `json:"script"`
			Err    bool   `json:"err"`
			Panic  bool   `json:"panic"`
		}
		json.Unmarshal(so.Bytes(), &out)
		simKind := res[i].Kind
		realKind := "script"
		if out.Panic {
			realKind = "panic"
		} else if out.Err {
			realKind = "error"
		}
		simScript := ""
		if res[i].Script != nil {
			simScript = string(*res[i].Script)
		}
		if simKind != realKind || simScript != out.Script {
			return machinery("transparency: world %d (%s): instrumented code in simulation answered %s (%d bytes), un-instrumented code on the real file system answered %s (%d bytes)",
				i, worlds[i].Shape, simKind, len(simScript), realKind, len(out.Script))
		}
	}
	// --- command
	refs := map[string]*c19Ref{}
	r := &Run{Env: env, Known: &KnownFile{}, KnownHit: map[string]int{}, seenCls: map[string]bool{}}
	mism := 0
	for i := 0; i < nTsh; i++ {
		inv := c19Gen(r, rng.Sub(), corpus)
		// relocate the simulated world under a real directory
		base := filepath.Join(env.Dir, "realfs", fmt.Sprintf("t%d", i))
		re := func(p string) string {
			if filepath.IsAbs(p) {
				return filepath.Join(base, p)
			}
			return p
		}
		spec := inv.Spec
		spec.Files = nil
		for _, f := range inv.Spec.Files {
			if strings.Contains(f.Path, "/std/") || strings.HasSuffix(f.Path, "/tsh") {
				continue
			}
			spec.Files = append(spec.Files, simrt.FileSpec{Path: re(f.Path), Dir: f.Dir, Data: f.Data})
		}
		for n, b := range env.Std {
			spec.Files = append(spec.Files, simrt.FileSpec{Path: filepath.Join(exeDir, "std", n), Data: b})
		}
		spec.Cwd = re(inv.Spec.Cwd)
		spec.Exe = filepath.Join(exeDir, "tsh")
		spec.Args = append([]string{}, inv.Spec.Args...)
		for k := 1; k < len(spec.Args); k++ {
			if filepath.IsAbs(spec.Args[k]) {
				spec.Args[k] = re(spec.Args[k])
			}
		}
		spec.MapMode = "canonical"
		spec.Faults = nil
		sim, err := env.RunTsh(&spec, "")
		if err != nil {
			return err
		}
		// real run
		for _, f := range spec.Files {
			if strings.HasPrefix(f.Path, exeDir) {
				continue
			}
			if f.Dir {
				os.MkdirAll(f.Path, 0o755)
			} else {
				os.MkdirAll(filepath.Dir(f.Path), 0o755)
				os.WriteFile(f.Path, f.Data, 0o644)
			}
		}
		os.MkdirAll(spec.Cwd, 0o755)
		cmd := exec.Command(filepath.Join(exeDir, "tsh"), spec.Args[1:]...)
		cmd.Dir = spec.Cwd
		runErr := cmd.Run()
		realExit := 0
		var ee *exec.ExitError
		if errors.As(runErr, &ee) {
			realExit = ee.ExitCode()
		}
		if realExit != sim.Exit {
			return machinery("transparency: tsh %q: exit %d in simulation, %d for real", spec.Args, sim.Exit, realExit)
		}
		final := finalImage(sim.Journal)
		for p, d := range final {
			if strings.HasPrefix(p, exeDir) {
				continue
			}
			b, err := os.ReadFile(p)
			switch d.Res {
			case "file":
				if err != nil || string(b) != string(d.Data) {
					mism++
					return machinery("transparency: tsh %q: file %s differs between simulation (%d bytes) and reality (%v, %d bytes)", spec.Args, p, len(d.Data), err, len(b))
				}
			case "absent":
				if err == nil {
					return machinery("transparency: tsh %q: file %s absent in simulation but present for real", spec.Args, p)
				}
			}
		}
		_ = refs
	}
	fmt.Printf("selftest transparency: %d library worlds and %d tsh invocations: instrumented-in-simulation == un-instrumented-on-real-FS\n", nLib, nTsh)
	return nil
}

// ---------------------------------------------------------------- determinism

func digestOf(v any) string {
	b, _ := json.Marshal(v)
	h := sha256.Sum256(b)
	return hex.EncodeToString(h[:8])
}

// selftestDeterminism executes the same plans under different worker counts
// and GOMAXPROCS values, and single plans many times in many processes; all
// results (including trace digests) must be identical.
func selftestDeterminism(args []string) error {
	env, err := NewEnv()
	if err != nil {
		return err
	}
	defer env.Close()
	seeds := 16
	if len(args) > 0 {
		fmt.Sscan(args[0], &seeds)
	}
	corpus := gen.HarvestCorpus(env.Repo)
	known := &KnownFile{}
	configs := []struct {
		workers int
		gmp     string
	}{{1, "1"}, {4, "4"}, {16, "16"}}
	total := 0
	for s := 0; s < seeds; s++ {
		seed := envSeed()*1000 + uint64(s)
		// engine A, cases (C13 phase-1 style)
		mkCases := func() []simrt.Case {
			rng := gen.NewRng(seed)
			cs := []simrt.Case{}
			for i := 0; i < 24; i++ {
				gw := gen.NewWorld(rng.Sub(), gen.WorldOpts{MaxFiles: 4, StdPct: 5, AllowStd: true, Hostile: true, Corpus: corpus, CorpusPct: 30, SmallFeats: true})
				if rng.Chance(40) {
					d, _ := gen.Corrupt(rng, gw.Get(gw.Main))
					gw.Set(gw.Main, d)
				}
				b := c13Budgets()
				spec := simrt.WorldSpec{Files: c13World(gw, env, "/sim/m", "/sim/x"), Cwd: "/sim/m", Exe: "/sim/x/tsh", MapMode: rng.Pick([]string{"canonical", "shuffle", "reversed"}), MapSeed: rng.U64(), Budgets: &b}
				if rng.Chance(50) {
					spec.Faults = []*simrt.Fault{{Seq: 1 + rng.Intn(8), Kind: rng.Pick([]string{simrt.KENOENT, simrt.KEIO, simrt.KTORN, simrt.KFLIP}), N: rng.Intn(50), B: 4}}
				}
				cs = append(cs, simrt.Case{World: spec, Path: "/sim/m/" + gw.Main, Target: rng.Pick([]string{"bash", "batch"})})
			}
			return cs
		}
		mkHists := func() []*c14Hist {
			rng := gen.NewRng(seed + 5)
			r := &Run{Env: env, Tier: "quick"}
			hs := []*c14Hist{}
			for i := 0; i < 6; i++ {
				hs = append(hs, c14Gen(r, rng.Sub(), corpus))
			}
			return hs
		}
		mkInvs := func() []*c19Inv {
			rng := gen.NewRng(seed + 9)
			r := &Run{Env: env}
			out := []*c19Inv{}
			for i := 0; i < 12; i++ {
				inv := c19Gen(r, rng.Sub(), corpus)
				if rng.Chance(50) {
					inv.Spec.Faults = []*simrt.Fault{{Seq: 1 + rng.Intn(20), Kind: rng.Pick([]string{simrt.KENOENT, simrt.KEIO, simrt.KEACCES, simrt.KENOSPC})}}
				}
				out = append(out, inv)
			}
			return out
		}
		var ref string
		for ci, cfg := range configs {
			env.Workers = cfg.workers
			workerGOMAXPROCS = cfg.gmp
			parts := []string{}
			res, err := env.RunCases(mkCases())
			if err != nil {
				return err
			}
			parts = append(parts, digestOf(res))
			for _, h := range mkHists() {
				conc, _ := h.materialise(env)
				hr, fatal, err := env.RunHistory(conc)
				if err != nil {
					return err
				}
				for i := range hr {
					hr[i].Trace = nil
				}
				parts = append(parts, digestOf(hr)+fatal)
			}
			invs := mkInvs()
			outs := make([]string, len(invs))
			errs := make([]error, len(invs))
			parallel(len(invs), cfg.workers, func(i int) {
				tr, err := env.RunTsh(&invs[i].Spec, "")
				if err != nil {
					errs[i] = err
					return
				}
				outs[i] = fmt.Sprint(tr.Exit) + digestOf(tr.Journal)
			})
			for _, e := range errs {
				if e != nil {
					return e
				}
			}
			parts = append(parts, outs...)
			// engine B
			rngB := gen.NewRng(seed + 13)
			rr := &Run{Env: env, Known: known}
			for i := 0; i < 6; i++ {
				h := c17Gen(rngB.Sub(), []string{"base", "extended"}[i%2])
				k, d, err := c17Run(rr, h, rngB.U64(), nil)
				if err != nil {
					return err
				}
				// details contain temp-dir names: compare kind and the model-side part only
				if j := strings.Index(d, "(stderr"); j >= 0 {
					d = d[:j]
				}
				parts = append(parts, k+"|"+d)
			}
			total += len(parts)
			dg := digestOf(parts)
			if ci == 0 {
				ref = dg
			} else if dg != ref {
				return machinery("determinism: seed %d: results differ between worker/GOMAXPROCS configurations (%s vs %s)", seed, ref, dg)
			}
		}
	}
	// single plans, 30 processes each
	env.Workers = 16
	rng := gen.NewRng(envSeed() + 4242)
	for p := 0; p < 8; p++ {
		r := &Run{Env: env, Tier: "quick"}
		h := c14Gen(r, rng.Sub(), corpus)
		conc, _ := h.materialise(env)
		digs := make([]string, 30)
		errs := make([]error, 30)
		parallel(30, 16, func(i int) {
			hr, fatal, err := env.RunHistory(conc)
			errs[i] = err
			digs[i] = digestOf(hr) + fatal
		})
		for i := range digs {
			if errs[i] != nil {
				return errs[i]
			}
			if digs[i] != digs[0] {
				return machinery("determinism: one plan executed in 30 processes gave different results (run 0 %s, run %d %s)", digs[0], i, digs[i])
			}
		}
	}
	sort.Strings(nil)
	fmt.Printf("selftest determinism: %d seeds x 3 worker/GOMAXPROCS configurations (%d result items each compared), 8 plans x 30 processes: identical\n", seeds, total/3)
	return nil
}

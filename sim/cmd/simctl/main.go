// simctl is the orchestrator of the deterministic simulation checks.
//
//	simctl check  <C13|C14|C17|C19> [quick|thorough]
//	simctl replay <replay-file>
//	simctl selftest <determinism|conformance|transparency|sensitivity> [...]
//
// Environment: VERIF_SEED (default 1), VERIF_TIER, VERIF_BUDGET_S,
// VERIF_WORKERS, VERIF_REPO (default /repo), VERIF_ROOT (default /verif).
//
// Exit status: 0 the property held on everything explored (known findings
// allowed), 1 at least one unlisted violation, 2 the machinery itself failed.
package main

import (
	"encoding/json"
	"errors"
	"fmt"
	"os"
	"os/signal"
	"strconv"
	"syscall"
	"time"
)

var checks = map[string]func(*Run) error{
	"C13": checkC13,
	"C14": checkC14,
	"C17": checkC17,
	"C19": checkC19,
}

var replays = map[string]func(*Run, *Violation) (bool, string, error){
	"C13": replayC13,
	"C14": replayC14,
	"C17": replayC17,
	"C19": replayC19,
}

var quickBudget = map[string]int{"C13": 45, "C14": 45, "C17": 45, "C19": 45}
var thoroughBudget = map[string]int{"C13": 1200, "C14": 1200, "C17": 1200, "C19": 1200}

func envSeed() uint64 {
	if v := os.Getenv("VERIF_SEED"); v != "" {
		if n, err := strconv.ParseUint(v, 10, 64); err == nil {
			return n
		}
		if n, err := strconv.ParseInt(v, 10, 64); err == nil {
			return uint64(n)
		}
	}
	return 1
}

func fail(err error) {
	var me machineryError
	if errors.As(err, &me) {
		fmt.Fprintln(os.Stderr, "MACHINERY-ERROR:", err)
		os.Exit(2)
	}
	fmt.Fprintln(os.Stderr, "ERROR:", err)
	os.Exit(2)
}

var currentEnv *Env

func newRun(prop, tier string) (*Run, error) {
	known, err := LoadKnown(verifRoot())
	if err != nil {
		return nil, err
	}
	env, err := NewEnv()
	if err != nil {
		return nil, err
	}
	currentEnv = env
	r := &Run{Prop: prop, Tier: tier, Seed: envSeed(), Env: env, Known: known, KnownHit: map[string]int{}, seenCls: map[string]bool{}}
	b := quickBudget[prop]
	if tier == "thorough" {
		b = thoroughBudget[prop]
	}
	if v := os.Getenv("VERIF_BUDGET_S"); v != "" {
		if n, err := strconv.Atoi(v); err == nil && n > 0 {
			b = n
		}
	}
	r.Budget = time.Duration(b) * time.Second
	r.Start = time.Now()
	return r, nil
}

func main() {
	if len(os.Args) < 3 {
		fmt.Fprintln(os.Stderr, "usage: simctl check <prop> [tier] | replay <file> | selftest <name>")
		os.Exit(2)
	}
	sig := make(chan os.Signal, 1)
	signal.Notify(sig, syscall.SIGINT, syscall.SIGTERM)
	go func() {
		<-sig
		if currentEnv != nil {
			currentEnv.Close()
		}
		os.Exit(2)
	}()
	switch os.Args[1] {
	case "check":
		prop := os.Args[2]
		tier := os.Getenv("VERIF_TIER")
		if len(os.Args) > 3 {
			tier = os.Args[3]
		}
		if tier != "thorough" {
			tier = "quick"
		}
		f, ok := checks[prop]
		if !ok {
			fail(machinery("no check for %s", prop))
		}
		r, err := newRun(prop, tier)
		if err != nil {
			fail(err)
		}
		fmt.Printf("simctl: check %s tier=%s seed=%d budget=%v workers=%d (instrument+build %.1fs)\n", prop, tier, r.Seed, r.Budget, r.Env.Workers, r.Env.BuildS)
		err = f(r)
		r.Env.Close()
		if err != nil {
			fail(err)
		}
		fmt.Printf("simctl: %s done in %.1fs, unlisted violations: %d\n", prop, time.Since(r.Start).Seconds(), len(r.Viol))
		if len(r.Viol) > 0 {
			os.Exit(1)
		}
	case "replay":
		raw, err := os.ReadFile(os.Args[2])
		if err != nil {
			fail(machinery("%v", err))
		}
		var v Violation
		if err := json.Unmarshal(raw, &v); err != nil {
			fail(machinery("bad replay file: %v", err))
		}
		f, ok := replays[v.Prop]
		if !ok {
			fail(machinery("no replay for %s", v.Prop))
		}
		r, err := newRun(v.Prop, "quick")
		if err != nil {
			fail(err)
		}
		bad, msg, err := f(r, &v)
		r.Env.Close()
		if err != nil {
			fail(err)
		}
		if bad {
			fmt.Printf("VIOLATION property=%s replay=%s\n  %s\n", v.Prop, os.Args[2], msg)
			os.Exit(1)
		}
		fmt.Printf("replay: %s\n", msg)
	case "selftest":
		if err := selftest(os.Args[2:]); err != nil {
			fail(err)
		}
	default:
		fmt.Fprintln(os.Stderr, "unknown command", os.Args[1])
		os.Exit(2)
	}
}

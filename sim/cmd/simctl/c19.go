package main

import (
	"bytes"
	"encoding/json"
	"path/filepath"
	"fmt"
	"path"
	"sort"
	"strings"
	"time"

	"verifsim/gen"
	"verifsim/simrt"
)

// C19 — the tsh command writes exactly the library's output, or nothing.
// The real main() (instrumented) runs as its own OS process per invocation
// inside a simulated world: argv, cwd, executable location, MemFS and fault
// rules come from the plan; the final file-system state is reconstructed
// from the journal the process wrote.

type c19Inv struct {
	Spec      simrt.WorldSpec `json:"spec"`
	Valid     bool            `json:"valid"`       // options valid by construction
	Why       string          `json:"why"`         // why invalid (or shape description)
	Targets   []string        `json:"targets"`     // requested targets, in order, with repeats
	InArg     string          `json:"in_arg"`      // as given after -i
	OutArg    string          `json:"out_arg"`     // as given after -o
	Protected []string        `json:"protected"`   // absolute paths that must be byte-identical afterwards (input closure, std)
	ProgKind  string          `json:"prog_kind"`   // valid | corrupt:<desc>
	OptShape  string          `json:"opt_shape"`   // order/spelling/repetition pattern
	Family    string          `json:"family"`      // base | sweep | multi
	baseIdx   int             // (sweep cases: 1 + index of the fault-free invocation in the round)
	RefKey    string          `json:"-"`
	HasLink   bool            `json:"has_link,omitempty"`
	DirAtOut  bool            `json:"dir_at_output,omitempty"` // a DIRECTORY stands where an output file belongs (possibly the one that holds the input): failing is legitimate, moving or emptying it is not
	Sibling   bool            `json:"sibling,omitempty"` // files with names derived from the input's name stand next to it
	// StatFaults: the stat faults that fired, grouped by the Transpile call they fired in and keyed
	// by (path, n-th stat of that path within the call). The import resolution treats a failing
	// stat as "not there" and goes on (to the std directory): under such a fault the library's
	// answer is not an error but ANOTHER script, and that is what tsh has to write. Derived from
	// the journal after the run; the reference runs the library under exactly these faults.
	StatFaults [][]*simrt.Fault `json:"-"`
	Unsettled bool            `json:"unsettled,omitempty"` // the property does not settle whether this vector is an error: exit 0 is accepted if the outputs are right
}

var extOf = map[string]string{"bash": "sh", "batch": "bat"}

type c19Ref struct {
	Accepted bool
	Script   []byte
	Kind     string
}

type c19Stats struct {
	evals       int
	tuples      map[string]bool
	faultsFired map[string]int
	recoveryCases int
	faultsConf  map[string]int
	clause      map[string]int
	families    map[string]int
	optShapes   map[string]int
	exit0       int
	exitN       int
	probes      map[string]int
	samples     []any
	swept       int
	sweepCases  int
	leftovers   map[string]int
	ticks       int64
	ios         int64
}

func checkC19(r *Run) error {
	rng := gen.NewRng(r.Seed)
	corpus := gen.HarvestCorpus(r.Env.Repo)
	st := &c19Stats{tuples: map[string]bool{}, faultsFired: map[string]int{}, faultsConf: map[string]int{}, clause: map[string]int{},
		families: map[string]int{}, optShapes: map[string]int{}, probes: map[string]int{}, leftovers: map[string]int{}}
	roundSize, sweepN := 240, 4
	if r.Tier == "thorough" {
		roundSize, sweepN = 480, 14
	}
	rounds := 0
	for r.Left() > 0 {
		if err := c19Round(r, rng.Sub(), st, corpus, roundSize, sweepN); err != nil {
			return err
		}
		rounds++
		if len(r.Viol) >= 8 {
			break
		}
	}
	wall := time.Since(r.Start).Seconds()
	zero := []string{}
	for _, p := range []string{"target_named_twice", "both_targets", "input_several_dots", "input_no_extension", "input_with_blank", "input_in_dotted_dir", "relative_input", "out_is_input_dir",
		"preexisting_output", "rejected_program", "write_side_fault_fired", "read_side_fault_fired", "partial_write_injected", "invalid_options", "program_with_imports"} {
		if st.probes[p] == 0 {
			zero = append(zero, p)
		}
	}
	cov := map[string]any{
		"evaluations":         st.evals,
		"distinct_nontrivial": len(st.tuples),
		"rule": "one evaluation = one invocation of the instrumented tsh binary as an OS process in a simulated world; non-trivial = anything but a fault-free, single-target, valid invocation; " +
			"distinct = distinct (option-vector shape, program outcome, fault kind, fault position class, exit class) tuples",
		"samples":    st.samples,
		"exhaustive": false,
		"single_fault_sweeps": map[string]any{"invocations_swept": st.swept, "cases": st.sweepCases,
			"meaning": "for each swept invocation every recorded I/O call of the fault-free run x every applicable error-returning fault kind was executed once"},
		"recovery_path_sweeps": map[string]any{"cases": st.recoveryCases,
			"meaning": "second order: for single-fault runs whose fault fired, each of the first 8 I/O calls AFTER the fault (the handling path, absent from the fault-free trace) x every applicable error kind, as a second fault"},
	}
	extra := map[string]any{
		"rounds":            rounds,
		"runs_per_hour":     int(float64(st.evals) / wall * 3600),
		"seeds":             map[string]any{"VERIF_SEED": r.Seed},
		"sim_steps":         map[string]any{"ticks": st.ticks, "io_operations": st.ios},
		"faults_fired":      st.faultsFired,
		"faults_configured": st.faultsConf,
		"deciding_clause":   st.clause,
		"families":          st.families,
		"option_shapes":     st.optShapes,
		"exit_zero":         st.exit0,
		"exit_nonzero":      st.exitN,
		"probes":            st.probes,
		"probes_at_zero":    zero,
		"leftover_files_not_judged": st.leftovers,
		"components": map[string]any{
			"real":    []string{"tsh.go main/parseOptions (instrumented, own OS process per invocation)", "lexer, parser, transpiler, converters (instrumented)"},
			"stubbed": []string{"os.Args, os.Stat, os.ReadFile, os.WriteFile/Create/Rename/..., os.Executable, cwd (MemFS + fault rules)", "map iteration order"},
		},
	}
	return r.WriteEvidence(cov, extra, []string{
		"Ref[target] is the library's own fault-free answer on the pre-state image (a change inside the library moves Ref and tsh together)",
		"only error-returning faults are injected; silent corruption and process kill are out of the property's scope",
		"option vectors whose validity the property does not settle (odd trailing token, -i given twice, input named like its own output) are not generated",
	}, "fault_enumeration")
}

// c19Gen builds one fault-free invocation.
func c19Gen(r *Run, rng *gen.Rng, corpus []string) *c19Inv {
	gw := gen.NewWorld(rng.Sub(), gen.WorldOpts{MaxFiles: 3, StdPct: 3, AllowStd: true, Hostile: false, Corpus: corpus, CorpusPct: 30, SmallFeats: true})
	inv := &c19Inv{Valid: true, ProgKind: "valid", Family: "base"}
	// input file name variants
	main := gw.Main
	renamed := false
	if rng.Chance(55) {
		renamed = true
		nm := rng.Pick([]string{"a.b.tsh", "noext", "my prog.tsh", "rel.v1/prog.tsh", "x.y.z", "UPPER.TSH", "prog.tsh.bak", "sub dir/m.tsh", "p.", "tsh", "bash", "batch", "out", "-x.tsh", "my%20prog.tsh", "100%.tsh", "50%done.v2.tsh", "%s.tsh", "report[1].tsh", "a*b.tsh", "q?.tsh",
			"prüfung.tsh", "テスト.tsh", "übung", "naïve.v2.tsh", "é.tsh", "Ünïcödé prog.tsh",
			// characters whose other-case form has another length in UTF-8 (İ, the Kelvin and Ohm signs, ẞ, Ⱥ, Ⱦ, ſ, ı), combining marks, a 4-byte character
			"İstanbul.tsh", "ȺȾ.tsh", "\u212A.tsh", "\u2126.v2.tsh", "GROẞ.tsh", "ſtraße.tsh", "dıştan.tsh", "e\u0301cole.tsh", "😀.tsh", "a\u200bb.tsh",
			// an inner extension that is the extension of a target; blanks at the edges of the name
			"deploy.sh.tsh", "setup.bat.tsh", "install.sh.in", "run.bat.v2", "a.sh.b.tsh", "prog.tsh.tsh", "notes ", "report.tsh ", " lead.tsh", " both ends .tsh ",
			// names a shell would expand (tsh is not a shell)
			"~scratch.tsh", "~", "~root.tsh", "$HOME.tsh", "${x}.tsh",
			// the target's extension in another case; the extension's text a second time further left
			"DEPLOY.SH", "Setup.Bat", "x.Sh", "RUN.BAT", "deploy.tsh.old.tsh", "release.1.0.1", "x.tshirt.tsh", "a.sh.sh.tsh",
			// stems that are "." and ".." (what remains when the last extension is removed)
			"..tsh", "...tsh",
			// names another operating system reserves
			"aux.tsh", "con.tsh", "nul.tsh", "Com1.setup.tsh", "nul .tsh", "lpt1", "PRN.tsh",
			// names that look like somebody's temporary, lock, backup or staging files
			".tsh-draft.tmp", ".tsh-old.tmp", "draft.tmp", ".#main.tsh", "main.tsh~", ".main.tsh.swp", "#main.tsh#", "main.tsh.orig", "main.tsh.lock", "core", "nohup.out", "~$main.tsh", "main.tmp.tsh", "tmp.tsh",
			// names spelled like switches a command might have (a value is a value wherever it stands)
			"--help", "-h", "--version", "-v", "--", "-", "-i", "-o", "--out", "-t.tsh", "--in.tsh",
			// … also in the switch=value notation; and values with = : , that a parser might split at
			"-v=2.tsh", "--in=x.tsh", "-x=y", "a=b.tsh", "--type=bash", "k=v=w.tsh", "a,b.tsh", "a:b.tsh", "-i=main.tsh"})
		if rng.Chance(7) {
			// (the temp-like and switch-like names get a share of their own: the pool above is large)
			nm = rng.Pick([]string{".tsh-draft.tmp", ".tsh-old.tmp", "draft.tmp", "main.tsh~", ".#main.tsh", "#main.tsh#", "main.tsh.lock", "--help", "-h", "--version", "-o", "-v=2.tsh", "--in=x.tsh", "--type=bash"})
		}
		// imports are relative to the main file's directory: keep the directory, change the base name
		nm = path.Join(path.Dir(main), path.Base(nm))
		if rng.Chance(33) && path.Dir(main) == "." && len(gw.Closure) == 1 {
			nm = rng.Pick([]string{"rel.v1/prog.tsh", "sub dir/m.tsh", "d.e/f.g.tsh", "d.e/noext"})
		}
		data := gw.Get(main)
		files := []gen.WFile{}
		for _, f := range gw.Files {
			if f.Rel != main {
				files = append(files, f)
			}
		}
		gw.Files = files
		gw.Set(nm, data)
		for i, c := range gw.Closure {
			if c == main {
				gw.Closure[i] = nm
			}
		}
		gw.Main, main = nm, nm
	}
	if rng.Chance(3) {
		// a very long line: one string literal of 70 000 characters (an embedded payload)
		gw.Set(main, append([]byte("var payload string = \""+strings.Repeat("QUJDREVGR0hJSktMTU5PUFFSU1RVVldYWVo", 2000)+"\"\n"), gw.Get(main)...))
	}
	if rng.Chance(8) {
		// an accepted program with unusual bytes where the lexer does not care: a comment in
		// Latin-1 or with a NUL byte, or a multi-byte character that straddles a power-of-two
		// offset (the edge of a buffer somebody might read the file through)
		var pre []byte
		switch rng.Intn(4) {
		case 0:
			pre = []byte("// caf\xe9 na\xefve\n")
		case 1:
			pre = []byte("// nul \x00 byte\n")
		default:
			b := rng.Pick2([]int{512, 1024, 1024, 4096})
			pre = []byte("// " + strings.Repeat("x", b-1-3) + "ü tail\n")
		}
		gw.Set(main, append(pre, gw.Get(main)...))
	}
	// (an invocation whose point is the input's NAME is mostly otherwise ordinary: a name is exercised
	// by an accepted program and a valid option vector)
	if rng.Chance(map[bool]int{false: 30, true: 14}[renamed]) {
		victim := main
		if len(gw.Closure) > 1 && rng.Chance(30) {
			victim = rng.Pick(gw.Closure)
		}
		var data []byte
		var desc string
		if rng.Chance(50) {
			s, d := gen.SpliceNearMiss(rng, string(gw.Get(victim)))
			data, desc = []byte(s), d
		} else {
			data, desc = gen.Corrupt(rng, gw.Get(victim))
		}
		gw.Set(victim, data)
		inv.ProgKind = "mutated:" + desc
	}
	mount := rng.Pick([]string{"/sim/m", "/w/my proj", "/home/u/src", "/home/u/.dotfiles/p", "/w/proj-1.2/src", "/w/100% (x)", "/w/projet-été", "/w/greeter:v2", "/w/backup-2026-09-24T10:30:00", "/w/copy\\2", "/w/say \"hi\""})
	exe := rng.Pick([]string{"/sim/x", "/opt/tsh/bin"})
	// an input that looks like somebody's temporary file is most interesting where temporary files
	// are made: in the output directory itself
	tmpLike := strings.Contains(path.Base(main), "tmp") || strings.ContainsAny(path.Base(main), "~#") || strings.HasSuffix(main, ".swp") || strings.HasSuffix(main, ".lock")
	outAbs := rng.Pick([]string{"/sim/out", "/sim/out", "/w/build dir", mount, "/sim/bash", "/sim/batch", "/sim/-t", "/sim/out.d/v1.2", "/sim/build%20out", "/sim/out [1]", "/sim/ausgabe-ü", "/sim/出力", "/sim/out dir ", "/sim/ lead", "/sim/-O=2", "/sim/--out=d", "/sim/a=b"})
	if tmpLike && path.Dir(main) == "." && rng.Chance(60) {
		outAbs = mount
	}
	if rng.Chance(2) {
		// the source tree lives in a directory that is named like the output file and stands in
		// the output directory: tsh -i D/prog.sh/prog.tsh -o D
		b0 := path.Base(main)
		outAbs = "/sim/out"
		mount = path.Join(outAbs, b0[:len(b0)-len(path.Ext(b0))]+"."+rng.Pick([]string{"sh", "bat"}))
		if path.Dir(main) == "." && b0[:len(b0)-len(path.Ext(b0))] != "" && !strings.HasPrefix(b0, ".") {
			inv.DirAtOut = true
		} else {
			mount = "/sim/m"
		}
	}
	files := c13World(gw, r.Env, mount, exe)
	if outAbs != mount {
		files = append(files, simrt.FileSpec{Path: outAbs, Dir: true})
	}
	outLink := ""
	if outAbs != mount && rng.Chance(10) {
		// the output directory is named through a symbolic link to it (build -> ../out, /tmp on macOS)
		outLink = rng.Pick([]string{"/sim/build", "/sim/links/out dir", path.Join(path.Dir(outAbs), "latest")})
		files = append(files, simrt.FileSpec{Path: outLink, Link: outAbs})
		inv.HasLink = true
	}
	base := path.Base(main)
	stem := base[:len(base)-len(path.Ext(base))]
	if rng.Chance(35) {
		for _, t := range []string{"bash", "batch"} {
			if rng.Chance(60) {
				p := path.Join(outAbs, stem+"."+extOf[t])
				if rng.Chance(6) && outAbs != mount {
					files = append(files, simrt.FileSpec{Path: p, Dir: true})
					if rng.Chance(60) {
						files = append(files, simrt.FileSpec{Path: path.Join(p, "keep.txt"), Data: []byte("inside a directory named like the output\n")})
					}
					inv.DirAtOut = true
					continue
				}
				if rng.Chance(30) {
					// an older output that is a symbolic link: to the other target's output, to the
					// input, to an unrelated file, to nothing, to a directory
					other := map[string]string{"bash": "bat", "batch": "sh"}[t]
					files = append(files, simrt.FileSpec{Path: p, Link: rng.Pick([]string{stem + "." + other, path.Join(mount, main), "unrelated.txt", "nowhere", ".", "../" + path.Base(outAbs) + "/unrelated.txt"})})
					inv.HasLink = true
				} else {
					files = append(files, simrt.FileSpec{Path: p, Data: []byte("OLD OUTPUT " + t + "\n")})
				}
			}
		}
		files = append(files, simrt.FileSpec{Path: path.Join(outAbs, "unrelated.txt"), Data: []byte("keep me\n")})
	}
	if rng.Chance(25) {
		// files next to the input whose names derive from the input's name (the same stem with
		// or without an extension, editor and backup copies): they are other files, with other content
		inDir := path.Dir(path.Join(mount, main))
		cands := []string{base + ".tsh", base + ".tsh", stem + ".tsh", stem, base + ".sh", base + ".bat", stem + ".tsh.tsh", "." + base, base + "~", base + ".bak", strings.ToUpper(base)}
		for n := rng.Range(1, 2); n > 0; n-- {
			c := rng.Pick(cands)
			p := path.Join(inDir, c)
			taken := c == base || c == "" || c == "." || inDir == outAbs || len(c) > 255
			for _, f := range files {
				if f.Path == p || strings.HasPrefix(f.Path, p+"/") {
					taken = true
				}
			}
			if taken {
				continue
			}
			files = append(files, simrt.FileSpec{Path: p, Data: []byte(rng.Pick([]string{"print(\"the sibling, not the input\")\n", "print(\"the sibling, not the input\")\n", "var x int = \"a type error in the sibling\"\n", "this is not a program {{{\n", ""}))})
			inv.Sibling = true
		}
	}
	// interpreters the search path may lead to (the PATH of the simulated environment differs from
	// epoch to epoch): /usr/bin/bash is /bin/bash, the others are other files
	files = append(files, simrt.FileSpec{Path: "/bin/bash", Data: []byte("ELF bash 5.2")}, simrt.FileSpec{Path: "/usr/bin/bash", HardLink: "/bin/bash"},
		simrt.FileSpec{Path: "/opt/homebrew/bin/bash", Data: []byte("ELF bash 5.3 (homebrew)")}, simrt.FileSpec{Path: "/home/u/.nix-profile/bin/bash", Data: []byte("ELF bash (nix)")},
		simrt.FileSpec{Path: "/bin/sh", Data: []byte("ELF dash")}, simrt.FileSpec{Path: "/usr/bin/env", Data: []byte("ELF env")})
	files = append(files, simrt.FileSpec{Path: "/tmp", Dir: true})
	cwd := rng.Pick([]string{mount, "/sim", "/", path.Dir(path.Join(mount, main)), outAbs, path.Dir(outAbs)})
	if rng.Chance(6) {
		// the working directory was entered through a symbolic link next to the tree that leads
		// somewhere deeper: the logical path (what Getwd reports) and the physical one disagree on ".."
		cwd = path.Join(path.Dir(mount), ".cwlink")
		files = append(files, simrt.FileSpec{Path: "/srv/deep/a/b/c/d", Dir: true}, simrt.FileSpec{Path: cwd, Link: "/srv/deep/a/b/c/d"})
	}
	rel := func(abs string) string {
		if rng.Chance(50) {
			return abs
		}
		if cwd == "/" {
			return strings.TrimPrefix(abs, "/")
		}
		if abs == cwd {
			return "."
		}
		if strings.HasPrefix(abs, cwd+"/") {
			return abs[len(cwd)+1:]
		}
		return abs
	}
	inAbs := path.Join(mount, main)
	if rng.Chance(12) {
		// the input is named through a symbolic link: another base name in the same directory
		// (the output is named after the link the user gave), or a link in another directory
		// (imports are looked up next to the link, exactly as the library does for that path)
		var link string
		if rng.Chance(60) || len(gw.Closure) > 1 {
			link = path.Join(path.Dir(inAbs), "current"+path.Ext(main))
		} else {
			link = "/sim/links/latest" + path.Ext(main)
		}
		target := inAbs
		if rng.Chance(50) {
			if r2, err := filepathRel(path.Dir(link), inAbs); err == nil {
				target = r2
			}
		}
		files = append(files, simrt.FileSpec{Path: link, Link: target})
		inAbs = link
		inv.HasLink = true
	}
	inv.InArg = rel(inAbs)
	switch {
	case len(gw.Closure) == 1 && rng.Chance(8):
		// ".." right after a symbolic link to a directory: the kernel goes to the parent of the link's
		// TARGET, a lexical clean-up of the path goes somewhere else
		files = append(files, simrt.FileSpec{Path: path.Join(path.Dir(inAbs), ".d"), Dir: true}, simrt.FileSpec{Path: "/sim/lnk/cur", Link: path.Join(path.Dir(inAbs), ".d")})
		inv.InArg = "/sim/lnk/cur/../" + path.Base(inAbs)
		inv.HasLink = true
	case rng.Chance(6):
		// an absolute path that is not in clean form
		inv.InArg = path.Dir(inAbs) + rng.Pick([]string{"/./", "//", "/.//"}) + path.Base(inAbs)
	}
	inv.OutArg = rel(outAbs)
	if outLink != "" {
		inv.OutArg = rel(outLink)
	}
	// targets
	switch rng.Intn(10) {
	case 0, 1, 2:
		inv.Targets = []string{"bash"}
	case 3, 4:
		inv.Targets = []string{"batch"}
	case 5:
		inv.Targets = []string{"bash", "batch"}
	case 6:
		inv.Targets = []string{"batch", "bash"}
	case 7:
		inv.Targets = []string{"bash", "bash"}
	case 8:
		inv.Targets = []string{"batch", "batch"}
	default:
		inv.Targets = []string{rng.Pick([]string{"bash", "batch"}), rng.Pick([]string{"bash", "batch"}), rng.Pick([]string{"bash", "batch"})}
	}
	// option vector: pairs in a random order, short/long spellings
	type pair struct{ k, v string }
	pairs := []pair{{rng.Pick([]string{"-i", "--in"}), inv.InArg}, {rng.Pick([]string{"-o", "--out"}), inv.OutArg}}
	for _, t := range inv.Targets {
		pairs = append(pairs, pair{rng.Pick([]string{"-t", "--type"}), t})
	}
	// shuffle while keeping the relative order of the -t pairs (their order is the order of requested targets)
	idx := make([]int, len(pairs))
	for i := range idx {
		idx[i] = i
	}
	for i := len(idx) - 1; i > 0; i-- {
		j := rng.Intn(i + 1)
		idx[i], idx[j] = idx[j], idx[i]
	}
	tpos := []int{}
	for pos, i := range idx {
		if i >= 2 {
			tpos = append(tpos, pos)
		}
	}
	for n, pos := range tpos {
		idx[pos] = 2 + n
	}
	shape := []string{}
	args := []string{"tsh"}
	for _, i := range idx {
		args = append(args, pairs[i].k, pairs[i].v)
		shape = append(shape, pairs[i].k+map[bool]string{true: "=" + pairs[i].v, false: ""}[i >= 2])
	}
	inv.OptShape = strings.Join(shape, " ")
	// invalid vectors
	if rng.Chance(map[bool]int{false: 22, true: 12}[renamed]) {
		inv.Valid = false
		switch rng.Intn(11) {
		case 0:
			args = append(args, "--frobnicate", "1")
			inv.Why = "unknown switch"
		case 1, 9, 10:
			// (spellings a tolerant parser might accept one day — BASH, sh — are left out: the
			// property does not settle them)
			bad := rng.Pick([]string{"powershell", "", "python", "bash,batch", "help", "all", "*"})
			if rng.Chance(50) {
				bad = rng.Pick([]string{"--help", "-h", "--version", "-v", "-t", "--type", "-?", "/?"}) // (a value is a value, however it is spelled)
			}
			if at := 1 + 2*rng.Intn((len(args)-1)/2+1); rng.Chance(50) && at < len(args) {
				// not only as the last pair
				args = append(args[:at:at], append([]string{rng.Pick([]string{"-t", "--type"}), bad}, args[at:]...)...)
			} else {
				args = append(args, rng.Pick([]string{"-t", "--type"}), bad)
			}
			inv.Why = "unknown type"
		case 2, 3, 4:
			drop := rng.Pick([]string{"-i", "-o", "-t"})
			na := []string{"tsh"}
			for i := 1; i+1 < len(args); i += 2 {
				k := args[i]
				if (drop == "-i" && (k == "-i" || k == "--in")) || (drop == "-o" && (k == "-o" || k == "--out")) || (drop == "-t" && (k == "-t" || k == "--type")) {
					continue
				}
				na = append(na, args[i], args[i+1])
			}
			args = na
			inv.Why = "missing " + drop
			if drop == "-t" {
				inv.Targets = nil
			}
		case 5:
			for i := 1; i+1 < len(args); i += 2 {
				if args[i] == "-i" || args[i] == "--in" {
					args[i+1] = path.Join(path.Dir(args[i+1]), "does-not-exist.tsh")
				}
			}
			inv.Why = "input missing"
		case 6:
			for i := 1; i+1 < len(args); i += 2 {
				if args[i] == "-i" || args[i] == "--in" {
					args[i+1] = mount
				}
			}
			inv.Why = "input is a directory"
		case 7:
			for i := 1; i+1 < len(args); i += 2 {
				if args[i] == "-o" || args[i] == "--out" {
					args[i+1] = "/sim/no/such/dir"
				}
			}
			inv.Why = "output directory missing"
			inv.OutArg = "/sim/no/such/dir"
			inv.Unsettled = true // creating the directory instead of failing would be a legitimate behaviour
		default:
			for i := 1; i+1 < len(args); i += 2 {
				if args[i] == "-o" || args[i] == "--out" {
					args[i+1] = path.Join(exe, "tsh")
				}
			}
			inv.Why = "output path is a file"
			inv.OutArg = path.Join(exe, "tsh")
		}
		inv.OptShape += " !" + inv.Why
	}
	b := c13Budgets()
	// /tmp is its own file system (as it commonly is): a rename from there into the output directory is EXDEV.
	// Sometimes the output directory is a separate file system from the sources as well.
	devices := []string{"/tmp"}
	if rng.Chance(30) && outAbs != mount {
		devices = append(devices, outAbs)
	}
	// how the command was started: by its real path, through a symbolic link in another directory,
	// or by its bare name found on the search path (/usr/bin is on every simulated PATH). The
	// executable's real location — where std lives — is the same in all three cases.
	files = append(files, simrt.FileSpec{Path: "/usr/bin/tsh", Link: path.Join(exe, "tsh")}, simrt.FileSpec{Path: "/home/u/bin/tsh", Link: path.Join(exe, "tsh")})
	switch rng.Intn(4) {
	case 0:
		args[0] = path.Join(exe, "tsh")
	case 1:
		args[0] = "/home/u/bin/tsh"
	case 2:
		args[0] = "/usr/bin/tsh"
	}
	if len(inv.Targets) > 8 {
		// (the budgets are per process: an invocation that transpiles some hundred times gets more)
		b.IO += 60 * len(inv.Targets)
		b.Ticks += 2_000_000 * int64(len(inv.Targets))
	}
	if rng.Chance(40) || tmpLike {
		// files have ages: written a second ago, minutes, days or years ago, or (a clock that was
		// wrong once) in the future; without this every file of the world is as old as the process
		ages := []int64{0, 1, 59, 601, 3600, 2 * 86400, 400 * 86400, -3600}
		same := ages[rng.Intn(len(ages))]
		mixed := rng.Chance(60)
		for i := range files {
			if mixed {
				files[i].Age = ages[rng.Intn(len(ages))]
			} else {
				files[i].Age = same
			}
		}
	}
	inv.Spec = simrt.WorldSpec{Devices: devices, Files: files, Cwd: cwd, Exe: path.Join(exe, "tsh"), Args: args,
		MapMode: rng.Pick([]string{"canonical", "reversed", "shuffle"}), MapSeed: rng.U64(), Epoch: int64(rng.Intn(1 << 30)), Budgets: &b}
	inv.Spec.StdoutClosed = rng.Chance(3) // (tsh has nothing to say on standard output; if it has, nobody may be listening)
	for _, f := range files {
		if !f.Dir && f.Link == "" && (strings.HasPrefix(f.Path, mount+"/") && !(strings.HasPrefix(outAbs, mount+"/") && strings.HasPrefix(f.Path, outAbs+"/")) || strings.HasPrefix(f.Path, exe+"/")) {
			inv.Protected = append(inv.Protected, f.Path)
		}
	}
	if outAbs == mount {
		// outputs land next to the inputs: protect only the source files
		prot := []string{}
		for _, p := range inv.Protected {
			if strings.HasSuffix(p, ".sh") || strings.HasSuffix(p, ".bat") {
				continue
			}
			prot = append(prot, p)
		}
		inv.Protected = prot
	}
	return inv
}

func (inv *c19Inv) refKey(target string) string {
	return shortHash(string(jsonOf(inv.Spec.Files))+inv.Spec.Cwd+inv.Spec.Exe+inv.InArg) + ":" + target
}

// altSpecs returns one reference world per Transpile call in which a stat fault fired: the
// fault-free pre-state plus exactly those faults, keyed by path and occurrence.
func (inv *c19Inv) altSpecs() []simrt.WorldSpec {
	out := []simrt.WorldSpec{}
	for _, g := range inv.StatFaults {
		spec := inv.Spec
		spec.Faults, spec.Events, spec.Args = g, nil, nil
		spec.MapMode = "canonical"
		out = append(out, spec)
	}
	return out
}

func altKey(spec *simrt.WorldSpec, inArg, target string) string {
	return "alt:" + shortHash(string(jsonOf(spec.Files))+string(jsonOf(spec.Faults))+spec.Cwd+spec.Exe+inArg) + ":" + target
}

// candidates: the library's fault-free answer, plus its answers under the stat faults that
// fired during one of the Transpile calls of this run.
func (inv *c19Inv) candidates(refs map[string]*c19Ref, t string) []*c19Ref {
	out := []*c19Ref{}
	if r := refs[inv.refKey(t)]; r != nil {
		out = append(out, r)
	}
	for _, spec := range inv.altSpecs() {
		if r := refs[altKey(&spec, inv.InArg, t)]; r != nil {
			out = append(out, r)
		}
	}
	return out
}

// outDir is the output directory as the kernel resolves it in the pre-state: -o may name a
// symbolic link to the directory.
func (inv *c19Inv) outDir() string { return inv.kpath(inv.OutArg) }

// kpath resolves a command-line path the way the kernel does in the pre-state (symbolic links
// in every component, ".." after a link); a path that cannot be resolved is cleaned lexically.
func (inv *c19Inv) kpath(p string) string {
	spec := inv.Spec
	spec.Faults, spec.Events = nil, nil
	w := simrt.NewWorld(&spec)
	if r := w.ResolvePath(p); r != "" && !strings.Contains(r, "\x00") {
		return path.Clean(r)
	}
	return inv.resolveLinks(absJoin(inv.Spec.Cwd, p))
}

// resolveLinks follows the symbolic links of the pre-state at the last component of p.
func (inv *c19Inv) resolveLinks(p string) string {
	for hop := 0; hop < 8; hop++ {
		next := ""
		for _, f := range inv.Spec.Files {
			if path.Clean(f.Path) == p && f.Link != "" {
				next = f.Link
				if !path.IsAbs(next) {
					next = path.Join(path.Dir(p), next)
				}
			}
		}
		if next == "" {
			break
		}
		p = path.Clean(next)
	}
	return p
}

func filepathRel(base, target string) (string, error) {
	return filepath.Rel(base, target)
}

func uniq(xs []string) []string {
	out := []string{}
	seen := map[string]bool{}
	for _, x := range xs {
		if !seen[x] {
			seen[x] = true
			out = append(out, x)
		}
	}
	return out
}

// c19Refs computes the library's fault-free answers for all (invocation, target) pairs.
func c19Refs(r *Run, invs []*c19Inv, refs map[string]*c19Ref) error {
	cases := []simrt.Case{}
	keys := []string{}
	for _, inv := range invs {
		for _, t := range uniq(inv.Targets) {
			k := inv.refKey(t)
			if _, ok := refs[k]; ok {
				continue
			}
			refs[k] = nil
			spec := inv.Spec
			spec.Faults, spec.Events, spec.Args = nil, nil, nil
			spec.MapMode = "canonical"
			cases = append(cases, simrt.Case{World: spec, Path: inv.InArg, Target: t, ReturnScript: true})
			keys = append(keys, k)
		}
		for _, spec := range inv.altSpecs() {
			for _, t := range uniq(inv.Targets) {
				k := altKey(&spec, inv.InArg, t)
				if _, ok := refs[k]; ok {
					continue
				}
				refs[k] = nil
				cases = append(cases, simrt.Case{World: spec, Path: inv.InArg, Target: t, ReturnScript: true})
				keys = append(keys, k)
			}
		}
	}
	res, err := r.Env.RunCases(cases)
	if err != nil {
		return err
	}
	for i, k := range keys {
		ref := &c19Ref{Kind: res[i].Kind}
		if res[i].Kind == "script" && res[i].Script != nil {
			ref.Accepted = true
			ref.Script = []byte(*res[i].Script)
		}
		refs[k] = ref
	}
	return nil
}

type c19Outcome struct {
	inv   *c19Inv
	res   *TshResult
	final map[string]*simrt.TraceEv // last delta per path
	pre   map[string]*simrt.FileSpec
}

func finalImage(j []simrt.TraceEv) map[string]*simrt.TraceEv {
	m := map[string]*simrt.TraceEv{}
	for i := range j {
		if j[i].Op == simrt.OpDelta {
			m[j[i].Path] = &j[i]
		}
	}
	return m
}

// stateOf describes what a path looks like in an image: "absent", "dir",
// "file:<bytes>" or "link:<target>=><what reading through it yields>".
func stateOf(get func(string) (kind string, data string, ok bool), p string) string {
	kind, data, ok := get(p)
	if !ok || kind == "absent" {
		return "absent"
	}
	switch kind {
	case "dir":
		return "dir"
	case "link":
		return "link:" + data + "=>" + readThrough(get, p, 0)
	}
	return "file:" + data
}

// readThrough returns the bytes a reader of p gets (following symbolic links), or a marker.
func readThrough(get func(string) (string, string, bool), p string, hops int) string {
	if hops > 10 {
		return "<loop>"
	}
	kind, data, ok := get(p)
	if !ok || kind == "absent" {
		return "<absent>"
	}
	switch kind {
	case "dir":
		return "<dir>"
	case "link":
		t := data
		if !path.IsAbs(t) {
			t = path.Join(path.Dir(p), t)
		}
		return readThrough(get, path.Clean(t), hops+1)
	}
	return data
}

func absJoin(cwd, p string) string {
	if path.IsAbs(p) {
		return path.Clean(p)
	}
	return path.Join(cwd, p)
}

// c19Judge applies the oracle; returns "" or a violation class plus detail.
func c19Judge(inv *c19Inv, res *TshResult, refs map[string]*c19Ref, st *c19Stats) (string, string) {
	final := finalImage(res.Journal)
	pre := map[string]*simrt.FileSpec{}
	for i := range inv.Spec.Files {
		pre[path.Clean(inv.Spec.Files[i].Path)] = &inv.Spec.Files[i]
	}
	faultFired := false
	for _, ev := range res.Journal {
		if ev.Fault != "" {
			faultFired = true
		}
	}
	if strings.Contains(res.Stderr, "simrt: ") && strings.Contains(res.Stderr, "budget exhausted") {
		return "tsh-budget-exhausted", tail(res.Stderr, 300)
	}
	if res.Signal != "" {
		return "tsh-killed-by-signal", res.Signal + " " + tail(res.Stderr, 300)
	}
	allAccepted := true // by the fault-free reference
	someAccepted := true // every target is accepted by at least one candidate answer
	for _, t := range inv.Targets {
		if ref := refs[inv.refKey(t)]; ref == nil || !ref.Accepted {
			allAccepted = false
		}
		any := false
		for _, c := range inv.candidates(refs, t) {
			any = any || c.Accepted
		}
		someAccepted = someAccepted && any
	}
	matches := func(t, data string) bool {
		for _, c := range inv.candidates(refs, t) {
			if c.Accepted && data == string(c.Script) {
				return true
			}
		}
		return false
	}
	clause := func(c string) {
		if st != nil {
			st.clause[c]++
		}
	}
	// clause 5: the input closure is never modified
	for _, p := range inv.Protected {
		d := final[p]
		f := pre[p]
		if f == nil {
			continue
		}
		if d == nil || d.Res != "file" || string(d.Data) != string(f.Data) {
			state := "absent"
			if d != nil {
				state = fmt.Sprintf("%s %q", d.Res, tail(string(d.Data), 80))
			}
			return "input-modified", fmt.Sprintf("protected file %s changed: now %s", p, state)
		}
	}
	outDir := inv.outDir()
	base := path.Base(inv.InArg)
	stem := base[:len(base)-len(path.Ext(base))]
	getFinal := func(p string) (string, string, bool) {
		if d := final[p]; d != nil {
			return d.Res, string(d.Data), true
		}
		return "absent", "", false
	}
	getPre := func(p string) (string, string, bool) {
		if f := pre[p]; f != nil {
			switch {
			case f.Dir:
				return "dir", "", true
			case f.Link != "":
				return "link", f.Link, true
			}
			return "file", string(f.Data), true
		}
		// implicit parent directories of listed files
		for q := range pre {
			if strings.HasPrefix(q, p+"/") {
				return "dir", "", true
			}
		}
		return "absent", "", false
	}
	// what a reader of the output path gets (symbolic links are followed)
	state := func(p string) (exists bool, data string, dir bool) {
		r := readThrough(getFinal, p, 0)
		switch r {
		case "<absent>", "<loop>":
			k, _, _ := getFinal(p)
			return k == "link", "", false
		case "<dir>":
			return true, "", true
		}
		return true, r, false
	}
	if res.Exit == 0 {
		// clause 4: invalid options or a rejected target must not exit 0
		if !inv.Valid && !inv.Unsettled {
			clause("4:invalid-options-exit0")
			return "exit0-on-invalid-options", inv.Why
		}
		if !someAccepted {
			clause("4:rejected-program-exit0")
			return "exit0-on-rejected-program", inv.ProgKind
		}
		// clause 2: every requested target's file equals the library's output
		for _, t := range uniq(inv.Targets) {
			p := path.Join(outDir, stem+"."+extOf[t])
			ex, data, dir := state(p)
			ref := refs[inv.refKey(t)]
			if !ex || dir {
				clause("2:missing-output")
				return "exit0-output-missing", fmt.Sprintf("target %s: %s does not exist after exit 0 (fault fired: %v)", t, p, faultFired)
			}
			if !matches(t, data) {
				clause("2:wrong-bytes")
				kind := "exit0-output-differs"
				if len(ref.Script) > 0 && len(data) == 2*len(ref.Script) && data == string(ref.Script)+string(ref.Script) {
					kind = "exit0-output-doubled"
				} else if strings.HasPrefix(string(ref.Script), data) {
					kind = "exit0-output-truncated"
				}
				return kind, fmt.Sprintf("target %s: %s has %d bytes, library output has %d bytes (fault fired: %v)", t, p, len(data), len(ref.Script), faultFired)
			}
		}
		clause("2:outputs-equal-ref")
		return "", ""
	}
	// exit != 0
	if inv.Valid && allAccepted && !faultFired && !inv.DirAtOut {
		clause("1:must-succeed")
		return "nonzero-exit-on-valid-invocation", fmt.Sprintf("exit=%d stderr=%s", res.Exit, firstLines(res.Stderr, 2))
	}
	// clause 3: each requested target's file is as before or exactly the library's output
	for _, t := range uniq(inv.Targets) {
		p := path.Join(outDir, stem+"."+extOf[t])
		ex, data, _ := state(p)
		pex := stateOf(getPre, p) != "absent"
		ref := refs[inv.refKey(t)]
		if stateOf(getFinal, p) == stateOf(getPre, p) {
			continue
		}
		// An older output that is a symbolic link to the output path of ANOTHER requested target:
		// writing that other target's file (which the property demands) necessarily changes what a
		// reader of this path gets. As long as the link itself is untouched, nothing is settled.
		if k, l, _ := getPre(p); k == "link" {
			aliased := false
			q := p
			for hop := 0; hop < 8 && !aliased; hop++ {
				kk, ll, _ := getPre(q)
				if kk != "link" {
					break
				}
				if path.IsAbs(ll) {
					q = path.Clean(ll)
				} else {
					q = path.Join(path.Dir(q), ll)
				}
				for _, t2 := range uniq(inv.Targets) {
					if t2 != t && q == path.Join(outDir, stem+"."+extOf[t2]) {
						aliased = true
					}
				}
			}
			if kf, lf, _ := getFinal(p); aliased && kf == "link" && lf == l {
				clause("3:output-aliases-another-target(unsettled)")
				continue
			}
		}
		if ex && matches(t, data) {
			continue
		}
		clause("3:partial-or-wrong-output-on-error")
		what := "changed"
		if !pex {
			what = "new"
		}
		if !ex {
			what = "removed"
		}
		k := "error-exit-leaves-" + what + "-output"
		if ref != nil && ref.Accepted && ex && strings.HasPrefix(string(ref.Script), data) {
			k += "-truncated"
		}
		return k, fmt.Sprintf("target %s: exit=%d, %s is %s: %d bytes (pre-state: exists=%v, library accepts=%v)", t, res.Exit, p, what, len(data), pex, ref != nil && ref.Accepted)
	}
	// "… or nothing": after an error exit the output directory holds no new file
	// besides requested outputs (a temporary file that was never cleaned up).
	// Not judged when the clean-up itself was made to fail by an injected fault.
	removeFaulted := false
	for _, ev := range res.Journal {
		if ev.Fault != "" && ev.Op == simrt.OpRemove {
			removeFaulted = true
		}
	}
	if !removeFaulted {
		requested := map[string]bool{}
		for _, t := range uniq(inv.Targets) {
			requested[path.Join(outDir, stem+"."+extOf[t])] = true
		}
		for _, p := range sortedKeys(final) {
			d := final[p]
			if d.Res != "file" || requested[p] || pre[p] != nil || path.Dir(p) != outDir {
				continue
			}
			clause("3:stray-file-on-error")
			return "error-exit-leaves-stray-file", fmt.Sprintf("exit=%d and the output directory holds a new file %s (%d bytes) that is not a requested output", res.Exit, p, len(d.Data))
		}
	}
	clause("3:error-exit-clean")
	return "", ""
}

func c19Exec(r *Run, st *c19Stats, invs []*c19Inv, refs map[string]*c19Ref) ([]*TshResult, error) {
	if err := c19Refs(r, invs, refs); err != nil {
		return nil, err
	}
	out := make([]*TshResult, len(invs))
	errs := make([]error, len(invs))
	parallel(len(invs), r.Env.Workers, func(i int) {
		out[i], errs[i] = r.Env.RunTsh(&invs[i].Spec, "")
	})
	for _, e := range errs {
		if e != nil {
			return nil, e
		}
	}
	// stat faults that actually fired: the library may have answered for a world without that path
	for i, inv := range invs {
		inv.StatFaults = statFaultGroups(inv, out[i])
	}
	if err := c19Refs(r, invs, refs); err != nil {
		return nil, err
	}
	for i, inv := range invs {
		res := out[i]
		st.evals++
		st.families[inv.Family]++
		st.optShapes[c19ShapeClass(inv)]++
		if res.Exit == 0 {
			st.exit0++
		} else {
			st.exitN++
		}
		if res.HasAtExit {
			if v, ok := res.AtExit["ticks"].(float64); ok {
				st.ticks += int64(v)
			}
			if v, ok := res.AtExit["io"].(float64); ok {
				st.ios += int64(v)
			}
		}
		c19Probes(st, inv, res, refs)
		class, detail := c19Judge(inv, res, refs, st)
		fk, fpos := "", ""
		for _, ev := range res.Journal {
			if ev.Fault != "" {
				st.faultsFired[ev.Fault+"@"+ev.Op]++
				fk, fpos = ev.Fault, ev.Op
			}
		}
		for _, f := range inv.Spec.Faults {
			st.faultsConf[f.Kind+"@"+f.Op]++
		}
		prog := "accepted"
		for _, t := range inv.Targets {
			if ref := refs[inv.refKey(t)]; ref == nil || !ref.Accepted {
				prog = "rejected"
			}
		}
		exitClass := "0"
		if res.Exit != 0 {
			exitClass = "N"
		}
		if inv.Family != "base" || !inv.Valid || len(inv.Targets) != 1 || prog != "accepted" {
			st.tuples[c19ShapeClass(inv)+"|"+prog+"|"+fk+"|"+fpos+"|"+exitClass] = true
		}
		// leftovers: files that are neither pre-existing nor requested outputs
		pre := map[string]bool{}
		for _, f := range inv.Spec.Files {
			pre[path.Clean(f.Path)] = true
		}
		for p, d := range finalImage(res.Journal) {
			if !pre[p] && d.Res == "file" && !strings.HasSuffix(p, ".sh") && !strings.HasSuffix(p, ".bat") {
				st.leftovers[fk+"@"+fpos]++
			}
		}
		if len(st.samples) < 6 && st.evals%53 == 1 {
			st.samples = append(st.samples, map[string]any{"argv": inv.Spec.Args, "cwd": inv.Spec.Cwd, "faults": inv.Spec.Faults, "valid_options": inv.Valid, "why": inv.Why,
				"program": inv.ProgKind, "exit": res.Exit, "stderr": firstLines(res.Stderr, 1), "family": inv.Family})
		}
		if class != "" {
			v := &Violation{Prop: "C19", Class: class, Detail: fmt.Sprintf("argv=%q cwd=%s faults=%s program=%s | %s", inv.Spec.Args, inv.Spec.Cwd, jsonOf(inv.Spec.Faults), inv.ProgKind, detail),
				Kind: "tsh", Plan: jsonOf(inv)}
			if r.Known.Match(v) == nil && !r.seenCls[v.Class] {
				v = c19Minimise(r, inv, v, refs)
			}
			r.Report(v)
		}
	}
	return out, nil
}

func c19ShapeClass(inv *c19Inv) string {
	s := fmt.Sprintf("targets=%s", strings.Join(inv.Targets, ","))
	if !inv.Valid {
		s += " invalid:" + inv.Why
	}
	// position of the first -t relative to -i/-o
	order := []string{}
	for i := 1; i+1 < len(inv.Spec.Args); i += 2 {
		k := inv.Spec.Args[i]
		switch k {
		case "--in":
			k = "-i"
		case "--out":
			k = "-o"
		case "--type":
			k = "-t"
		}
		order = append(order, k)
	}
	return s + " order=" + strings.Join(order, "")
}

func c19Probes(st *c19Stats, inv *c19Inv, res *TshResult, refs map[string]*c19Ref) {
	if len(inv.Targets) > len(uniq(inv.Targets)) {
		st.probes["target_named_twice"]++
	}
	if len(uniq(inv.Targets)) == 2 {
		st.probes["both_targets"]++
	}
	if b0 := path.Base(inv.InArg); strings.HasPrefix(b0, ".tsh-") && strings.HasSuffix(b0, ".tmp") && inv.Family == "base" {
		st.probes["input_named_like_staging_file"]++
		if path.Dir(inv.kpath(inv.InArg)) == inv.outDir() {
			st.probes["input_named_like_staging_file_in_output_dir"]++
			for _, f := range inv.Spec.Files {
				if path.Clean(f.Path) == inv.kpath(inv.InArg) && f.Age > 600 && res.Exit == 0 {
					st.probes["input_named_like_staging_file_in_output_dir_old_exit0"]++
				}
			}
		}
	}
	base := path.Base(inv.InArg)
	if strings.Count(base, ".") >= 2 {
		st.probes["input_several_dots"]++
	}
	if !strings.Contains(base, ".") {
		st.probes["input_no_extension"]++
	}
	if strings.Contains(inv.InArg, " ") {
		st.probes["input_with_blank"]++
	}
	if strings.Contains(path.Dir(inv.InArg), ".") {
		st.probes["input_in_dotted_dir"]++
	}
	if !path.IsAbs(inv.InArg) {
		st.probes["relative_input"]++
	}
	if !inv.Valid {
		st.probes["invalid_options"]++
	}
	if inv.Sibling {
		st.probes["sibling_named_after_input"]++
	}
	if inv.HasLink {
		st.probes["symlink_in_world"]++
	}
	if len(inv.Protected) > 4 {
		st.probes["program_with_imports"]++
	}
	out := inv.outDir()
	if out == path.Dir(inv.kpath(inv.InArg)) {
		st.probes["out_is_input_dir"]++
	}
	for _, f := range inv.Spec.Files {
		if strings.HasPrefix(string(f.Data), "OLD OUTPUT") {
			st.probes["preexisting_output"]++
			break
		}
		if f.Link != "" {
			st.probes["preexisting_output_is_symlink"]++
			break
		}
	}
	for _, t := range inv.Targets {
		if ref := refs[inv.refKey(t)]; ref != nil && !ref.Accepted {
			st.probes["rejected_program"]++
			break
		}
	}
	for _, ev := range res.Journal {
		if ev.Fault == "" {
			continue
		}
		switch ev.Op {
		case simrt.OpWOpen, simrt.OpWData, simrt.OpWClose, simrt.OpOpen, simrt.OpFWrite, simrt.OpFClose, simrt.OpRename:
			st.probes["write_side_fault_fired"]++
		default:
			st.probes["read_side_fault_fired"]++
		}
		if ev.Fault == simrt.KSHORT {
			st.probes["partial_write_injected"]++
		}
	}
}

func c19Round(r *Run, rng *gen.Rng, st *c19Stats, corpus []string, roundSize, sweepN int) error {
	refs := map[string]*c19Ref{}
	invs := make([]*c19Inv, roundSize)
	for i := range invs {
		invs[i] = c19Gen(r, rng, corpus)
	}
	res, err := c19Exec(r, st, invs, refs)
	if err != nil {
		return err
	}
	// sweeps
	order := make([]int, len(invs))
	for i := range order {
		order[i] = i
	}
	for i := len(order) - 1; i > 0; i-- {
		j := rng.Intn(i + 1)
		order[i], order[j] = order[j], order[i]
	}
	errKinds := func(op string) []string {
		out := []string{}
		for _, k := range simrt.ApplicableFaults(op) {
			switch k {
			case simrt.KTORN, simrt.KFLIP, simrt.KEMPTY, simrt.KMUTATE, simrt.KISDIR:
				continue // silent corruption is out of scope for C19
			}
			out = append(out, k)
		}
		return out
	}
	next := []*c19Inv{}
	swept := 0
	// older outputs whose bytes are RELATED to the new output (equal, the new output plus
	// more, a prefix of it, one byte different, same length): the result must not depend on them
	for n, i := range order {
		inv, rs := invs[i], res[i]
		if n%4 != 0 || !inv.Valid || rs.Exit != 0 || len(inv.Targets) == 0 {
			continue
		}
		c := *inv
		c.Family = "related-old-output"
		c.Spec.Files = append([]simrt.FileSpec{}, inv.Spec.Files...)
		outDir := inv.outDir()
		base := path.Base(inv.InArg)
		stem := base[:len(base)-len(path.Ext(base))]
		for _, t := range uniq(inv.Targets) {
			ref := refs[inv.refKey(t)]
			if ref == nil || !ref.Accepted || len(ref.Script) < 4 {
				continue
			}
			r := ref.Script
			var old []byte
			switch rng.Intn(6) {
			case 0:
				old = append([]byte{}, r...)
			case 1:
				old = append(append([]byte{}, r...), []byte("echo \"left over from an earlier version\"\n")...)
			case 2:
				old = append([]byte{}, r[:len(r)/2]...)
			case 3:
				old = append([]byte{}, r...)
				old[rng.Intn(len(old))] ^= 0x20
			case 4:
				old = bytes.Repeat([]byte("x"), len(r))
			default:
				old = append([]byte("# older\n"), r...)
			}
			p := path.Join(outDir, stem+"."+extOf[t])
			files := []simrt.FileSpec{}
			for _, f := range c.Spec.Files {
				if path.Clean(f.Path) != p {
					files = append(files, f)
				}
			}
			c.Spec.Files = append(files, simrt.FileSpec{Path: p, Data: old})
		}
		next = append(next, &c)
	}
	// a target named very often (counts around the width of an exit status and of a byte): three
	// invocations per round, accepted and rejected programs alike, get their first target 255, 256
	// or 257 times
	for n, i := range order {
		inv := invs[i]
		if n%40 != 3 || !inv.Valid || len(inv.Targets) == 0 {
			continue
		}
		size := 0
		for _, f := range inv.Spec.Files {
			// (every file counts, whatever its name: an input may be called draft.tmp or --help)
			if !f.Dir && f.Link == "" && !strings.HasPrefix(f.Path, "/bin/") && !strings.HasPrefix(f.Path, "/usr/") && !strings.HasPrefix(f.Path, "/opt/homebrew/") {
				size += len(f.Data)
			}
		}
		if size > 20000 {
			continue // (some hundred transpilations of a large program take longer than one invocation may)
		}
		c := *inv
		c.Family = "many-targets"
		cnt := []int{256, 255, 256, 257}[(n/40)%4]
		c.Targets = nil
		args := []string{inv.Spec.Args[0], "-i", inv.InArg, "-o", inv.OutArg}
		for k := 0; k < cnt; k++ {
			c.Targets = append(c.Targets, inv.Targets[0])
			args = append(args, "-t", inv.Targets[0])
		}
		c.Spec.Args = args
		c.OptShape = fmt.Sprintf("-i -o -t x%d", cnt)
		b := *inv.Spec.Budgets
		b.IO += 60 * cnt // (the budgets are per process: an invocation that transpiles some hundred times gets more)
		b.Ticks += 2_000_000 * int64(cnt)
		c.Spec.Budgets = &b
		next = append(next, &c)
	}
	// what an earlier run that was killed half-way left behind: a file at exactly the name this
	// run uses for staging (same plan, hence same process id), longer than what will be written
	for n, i := range order {
		inv, rs := invs[i], res[i]
		if n%6 != 2 || !inv.Valid || rs.Exit != 0 {
			continue
		}
		pre := map[string]bool{}
		for _, f := range inv.Spec.Files {
			pre[path.Clean(f.Path)] = true
		}
		final := finalImage(rs.Journal)
		transient := []string{}
		seen := map[string]bool{}
		for _, ev := range rs.Journal {
			if ev.Op == simrt.OpDelta && ev.Res == "file" && !pre[ev.Path] && !seen[ev.Path] {
				if d := final[ev.Path]; d != nil && d.Res == "absent" {
					transient = append(transient, ev.Path)
					seen[ev.Path] = true
				}
			}
		}
		if len(transient) == 0 {
			continue
		}
		c := *inv
		c.Family = "stale-staging-file"
		c.Spec.Files = append([]simrt.FileSpec{}, inv.Spec.Files...)
		for _, p := range transient {
			c.Spec.Files = append(c.Spec.Files, simrt.FileSpec{Path: p, Data: bytes.Repeat([]byte("echo \"left by a run that was killed\"\n"), 200)})
		}
		next = append(next, &c)
	}
	// a SECOND invocation in the world the first one left behind (whatever it left: outputs,
	// temporary files, anything under $HOME or $TMPDIR), after the input was edited to another
	// program of exactly the same size: the command has no memory, the answer is the library's
	// answer for the file as it is now
	for n, i := range order {
		inv, rs := invs[i], res[i]
		if n%5 != 1 || !inv.Valid || rs.Exit != 0 {
			continue
		}
		c := *inv
		c.Family = "second-invocation"
		img := map[string]simrt.FileSpec{}
		for _, f := range inv.Spec.Files {
			img[path.Clean(f.Path)] = f
		}
		for p, d := range finalImage(rs.Journal) {
			switch d.Res {
			case "absent":
				delete(img, p)
			case "dir":
				img[p] = simrt.FileSpec{Path: p, Dir: true}
			case "link":
				img[p] = simrt.FileSpec{Path: p, Link: string(d.Data)}
			default:
				img[p] = simrt.FileSpec{Path: p, Data: append([]byte{}, d.Data...)}
			}
		}
		in := inv.kpath(inv.InArg)
		if len(inv.Protected) > 1 && rng.Chance(50) {
			// not the input itself but something it imports (a local module, a std file)
			in = path.Clean(inv.Protected[rng.Intn(len(inv.Protected))])
		}
		f, ok := img[in]
		if !ok || f.Link != "" || f.Dir {
			continue
		}
		edited := append([]byte{}, f.Data...)
		if k := bytes.IndexAny(edited, "0123456789"); k >= 0 {
			edited[k] = '0' + (edited[k]-'0'+1)%10
		} else {
			edited = append([]byte("print(7)\n"), edited...)
		}
		img[in] = simrt.FileSpec{Path: in, Data: edited}
		c.Spec.Files = nil
		for _, p := range sortedKeys(img) {
			c.Spec.Files = append(c.Spec.Files, img[p])
		}
		if rng.Chance(50) && len(c.Targets) > 0 {
			c.Targets = []string{rng.Pick([]string{"bash", "batch"})}
			args := []string{"tsh", "-i", c.InArg, "-o", c.OutArg, "-t", c.Targets[0]}
			c.Spec.Args = args
			c.OptShape = "-i -o -t"
		}
		next = append(next, &c)
	}
	for _, i := range order {
		inv, rs := invs[i], res[i]
		ioEvents := []simrt.TraceEv{}
		for _, ev := range rs.Journal {
			switch ev.Op {
			case simrt.OpDelta, simrt.OpMapRange, simrt.OpExit, simrt.OpEvent, simrt.OpClock:
			default:
				ioEvents = append(ioEvents, ev)
			}
		}
		if len(ioEvents) == 0 {
			continue
		}
		wantSweep := swept < sweepN && (rs.Exit == 0 || rng.Chance(25)) && len(ioEvents) <= 400
		if wantSweep {
			swept++
			st.swept++
			for _, ev := range ioEvents {
				for _, kind := range errKinds(ev.Op) {
					c := *inv
					c.Family = "sweep"
					c.baseIdx = i + 1
					f := &simrt.Fault{Seq: ev.Seq, Op: ev.Op, Kind: kind}
					if kind == simrt.KSHORT {
						f.N = rng.Intn(ev.N + 1)
					}
					c.Spec.Faults = []*simrt.Fault{f}
					next = append(next, &c)
					st.sweepCases++
				}
			}
		} else if rng.Chance(35) {
			c := *inv
			c.Family = "multi"
			for k := 0; k < 2; k++ {
				ev := ioEvents[rng.Intn(len(ioEvents))]
				kinds := errKinds(ev.Op)
				if len(kinds) == 0 {
					continue
				}
				c.Spec.Faults = append(c.Spec.Faults, &simrt.Fault{Seq: ev.Seq, Op: ev.Op, Kind: rng.Pick(kinds), N: rng.Intn(ev.N + 1)})
			}
			next = append(next, &c)
		}
	}
	res2, err := c19Exec(r, st, next, refs)
	if err != nil {
		return err
	}
	// recovery-path sweep (second order): a fault that fired sends the command down a path the
	// fault-free trace does not contain (clean-up, fallbacks, the next target). Every I/O call of
	// that path - the first ones after the fault, where the handling happens - fails once more in
	// every way: the sequence numbers come from the faulted run itself, which is deterministic.
	rec := []*c19Inv{}
	maxRec := 400
	if r.Tier == "thorough" {
		maxRec = 4000
	}
	for k, c := range next {
		if c.Family != "sweep" || len(c.Spec.Faults) != 1 || len(rec) >= maxRec {
			continue
		}
		f0 := c.Spec.Faults[0]
		fired := false
		// only calls the fault-free run did not make at that point: a fault the code tolerates
		// leaves the normal path, which the first-order sweep already covers
		basePath := map[int]string{}
		if c.baseIdx > 0 {
			for _, ev := range res[c.baseIdx-1].Journal {
				basePath[ev.Seq] = ev.Op + " " + ev.Path
			}
		}
		after := []simrt.TraceEv{}
		for _, ev := range res2[k].Journal {
			switch ev.Op {
			case simrt.OpDelta, simrt.OpMapRange, simrt.OpExit, simrt.OpEvent, simrt.OpClock:
				continue
			}
			if ev.Seq == f0.Seq && ev.Fault != "" {
				fired = true
				continue
			}
			if fired && ev.Seq > f0.Seq && len(after) < 8 && basePath[ev.Seq] != ev.Op+" "+ev.Path {
				after = append(after, ev)
			}
		}
		if !fired {
			continue
		}
		for _, ev := range after {
			for _, kind := range errKinds(ev.Op) {
				c2 := *c
				c2.Family = "recovery-sweep"
				f := &simrt.Fault{Seq: ev.Seq, Op: ev.Op, Kind: kind}
				if kind == simrt.KSHORT {
					f.N = rng.Intn(ev.N + 1)
				}
				c2.Spec.Faults = []*simrt.Fault{f0, f}
				rec = append(rec, &c2)
				st.recoveryCases++
			}
		}
	}
	_, err = c19Exec(r, st, rec, refs)
	return err
}

func c19Probe(r *Run, inv *c19Inv, refs map[string]*c19Ref) (string, string) {
	if refs == nil {
		refs = map[string]*c19Ref{}
	}
	if err := c19Refs(r, []*c19Inv{inv}, refs); err != nil {
		return "machinery", err.Error()
	}
	res, err := r.Env.RunTsh(&inv.Spec, "")
	if err != nil {
		return "machinery", err.Error()
	}
	inv.StatFaults = statFaultGroups(inv, res)
	if err := c19Refs(r, []*c19Inv{inv}, refs); err != nil {
		return "machinery", err.Error()
	}
	return c19Judge(inv, res, refs, nil)
}

// statFaultGroups reads the journal of a run: a Transpile call starts when the main file is
// read; within a call every stat of a path is counted, and a stat that was made to fail becomes
// the path-keyed fault (path, n-th stat of that path in this call).
func statFaultGroups(inv *c19Inv, res *TshResult) [][]*simrt.Fault {
	in := inv.kpath(inv.InArg) // (the journal names files by their resolved paths)
	groups := [][]*simrt.Fault{}
	var cur []*simrt.Fault
	counts := map[string]int{}
	inCall := false
	flush := func() {
		if len(cur) > 0 {
			groups = append(groups, cur)
		}
		cur = nil
	}
	for _, ev := range res.Journal {
		switch ev.Op {
		case simrt.OpRead:
			if path.Clean(ev.Path) == in {
				flush()
				counts = map[string]int{}
				inCall = true
			}
		case simrt.OpStat:
			if !inCall {
				continue
			}
			p := path.Clean(ev.Path)
			if ev.Fault != "" {
				cur = append(cur, &simrt.Fault{Seq: -1, Op: simrt.OpStat, PathSuffix: p, Nth: counts[p], Kind: ev.Fault})
			}
			counts[p]++
		}
	}
	flush()
	return groups
}

func c19Minimise(r *Run, inv *c19Inv, v *Violation, refs map[string]*c19Ref) *Violation {
	cur := *inv
	if cls, _ := c19Probe(r, &cur, nil); cls != v.Class {
		v.Note = "did not reproduce in a fresh process (got " + cls + "); original plan kept"
		return v
	}
	try := func(c c19Inv) bool {
		cls, _ := c19Probe(r, &c, nil)
		return cls == v.Class
	}
	// drop faults
	for i := 0; i < len(cur.Spec.Faults); {
		c := cur
		c.Spec.Faults = append(append([]*simrt.Fault{}, cur.Spec.Faults[:i]...), cur.Spec.Faults[i+1:]...)
		if try(c) {
			cur = c
		} else {
			i++
		}
	}
	// canonical map order
	if cur.Spec.MapMode != "canonical" {
		c := cur
		c.Spec.MapMode = "canonical"
		if try(c) {
			cur = c
		}
	}
	// drop files that are neither the input nor directories needed
	inAbs := absJoin(cur.Spec.Cwd, cur.InArg)
	for i := 0; i < len(cur.Spec.Files); {
		f := cur.Spec.Files[i]
		if f.Path == inAbs || f.Dir {
			i++
			continue
		}
		c := cur
		c.Spec.Files = append(append([]simrt.FileSpec{}, cur.Spec.Files[:i]...), cur.Spec.Files[i+1:]...)
		prot := []string{}
		for _, p := range c.Protected {
			if p != f.Path {
				prot = append(prot, p)
			}
		}
		c.Protected = prot
		if try(c) {
			cur = c
		} else {
			i++
		}
	}
	// shrink the input program by lines
	budget := 60
	for i := range cur.Spec.Files {
		if cur.Spec.Files[i].Path != inAbs {
			continue
		}
		idx := i
		items := ddmin(strings.SplitAfter(string(cur.Spec.Files[i].Data), "\n"), func(cand []string) bool {
			c := cur
			c.Spec.Files = append([]simrt.FileSpec{}, cur.Spec.Files...)
			c.Spec.Files[idx].Data = []byte(strings.Join(cand, ""))
			return try(c)
		}, &budget)
		cur.Spec.Files = append([]simrt.FileSpec{}, cur.Spec.Files...)
		cur.Spec.Files[i].Data = []byte(strings.Join(items, ""))
	}
	if cls, detail := c19Probe(r, &cur, nil); cls == v.Class {
		v.Plan = jsonOf(&cur)
		v.Min = true
		names := []string{}
		for _, f := range cur.Spec.Files {
			names = append(names, f.Path)
		}
		sort.Strings(names)
		v.Detail = fmt.Sprintf("argv=%q cwd=%s faults=%s files=%v | %s", cur.Spec.Args, cur.Spec.Cwd, jsonOf(cur.Spec.Faults), names, detail)
	}
	return v
}

func replayC19(r *Run, v *Violation) (bool, string, error) {
	var inv c19Inv
	if err := json.Unmarshal(v.Plan, &inv); err != nil {
		return false, "", machinery("bad replay plan: %v", err)
	}
	cls, detail := c19Probe(r, &inv, nil)
	if cls == "machinery" {
		return false, "", machinery("replay could not run: %s", detail)
	}
	if cls != "" {
		return true, "class=" + cls + " " + detail, nil
	}
	return false, "no violation on replay", nil
}

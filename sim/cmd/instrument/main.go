// instrument copies the working tree of the repository under test into a
// scratch directory and inserts the simulation seams mechanically, driven by
// go/types (never by line numbers):
//
//   - selectors resolving to file-system / process / clock / randomness
//     functions of the standard library are rerouted to package simrt;
//   - every `range` over a map iterates in the order the simulator dictates;
//   - simrt.Tick() is inserted at the top of every function and loop body;
//   - `defer simrt.AtExit()` is inserted at the top of main.main.
//
// The edits are textual (byte offsets taken from the AST), so comments,
// build constraints and //go: directives survive untouched.
package main

import (
	"encoding/json"
	"flag"
	"fmt"
	"go/ast"
	"go/build"
	"go/importer"
	"go/parser"
	"go/token"
	"go/types"
	"io/fs"
	"os"
	"path/filepath"
	"regexp"
	"sort"
	"strings"
)

type edit struct {
	off  int
	del  int
	text string
	ord  int
}

type Report struct {
	Module      string         `json:"module"`
	Packages    []string       `json:"packages"`
	Files       int            `json:"files"`
	Sites       map[string]int `json:"sites"`        // kind -> count
	SiteList    []string       `json:"site_list"`    // "file:line kind"
	Unsimulated []string       `json:"unsimulated"`  // constructs seen that no seam covers
	GoVersion   string         `json:"go_directive"` // of the copy
}

var rewrites = map[string]map[string]string{
	"os": {
		"Stat": "Stat", "Lstat": "Lstat", "ReadFile": "ReadFile", "WriteFile": "WriteFile",
		"Executable": "Executable", "Getwd": "Getwd", "Chdir": "Chdir", "Exit": "Exit",
		"Getenv": "Getenv", "LookupEnv": "LookupEnv", "Environ": "Environ", "Getpid": "Getpid",
		"Hostname": "Hostname", "TempDir": "TempDir", "UserHomeDir": "UserHomeDir",
		"Rename": "Rename", "Remove": "Remove", "RemoveAll": "RemoveAll", "Mkdir": "Mkdir",
		"MkdirAll": "MkdirAll", "ReadDir": "ReadDir", "Chmod": "Chmod", "Truncate": "Truncate",
		"Open": "Open", "Create": "Create", "OpenFile": "OpenFile", "CreateTemp": "CreateTemp",
		"MkdirTemp": "MkdirTemp", "Args": "Args()", "File": "File", "Symlink": "Symlink", "Readlink": "Readlink", "Link": "Link", "SameFile": "SameFile", "UserCacheDir": "UserCacheDir", "UserConfigDir": "UserConfigDir",
	},
	"path/filepath": {"Abs": "Abs", "EvalSymlinks": "EvalSymlinks", "Glob": "Glob", "WalkDir": "WalkDir", "Walk": "Walk"},
	"os/exec":       {"LookPath": "LookPath"},
	"io/ioutil":     {"ReadFile": "ReadFile", "WriteFile": "WriteFile", "TempFile": "CreateTemp", "TempDir": "MkdirTemp"},
	"time":          {"Now": "Now", "Since": "Since"},
	"math/rand": {"Int": "RandInt", "Intn": "RandIntn", "Int63": "RandInt63", "Int31": "RandInt31",
		"Uint32": "RandUint32", "Uint64": "RandUint64", "Float64": "RandFloat64", "Int63n": "RandInt63n",
		"Int31n": "RandInt31n", "Read": "RandRead"},
	"math/rand/v2": {"Int": "RandInt", "IntN": "RandIntn", "Int64": "RandInt63", "Uint32": "RandUint32",
		"Uint64": "RandUint64", "Float64": "RandFloat64", "Int64N": "RandInt63n"},
	"crypto/rand": {"Read": "RandRead"},
	"maps":        {"DeleteFunc": "MapDeleteFunc", "Keys": "MapKeys", "Values": "MapValues", "All": "MapAll"},
}

var keepalive = map[string]string{
	"os": "ErrNotExist", "path/filepath": "Separator", "io/ioutil": "Discard", "time": "Nanosecond",
	"math/rand": "Int", "math/rand/v2": "Int", "crypto/rand": "Reader", "maps": "Clone[map[int]int]", "os/exec": "ErrNotFound",
}

// selectors that touch the environment but have no seam: reported.
var unsim = map[string][]string{
	"os":            {"Chown", "Lchown", "Chtimes", "DirFS", "CopyFS", "StartProcess", "Pipe", "NewFile", "FindProcess", "Getppid", "Getuid", "Setenv", "Unsetenv", "Clearenv", "ReadLink"},
	"time":          {"Sleep", "After", "Tick", "NewTimer", "NewTicker", "AfterFunc", "Until"},
	"reflect":       {"MapRange", "MapKeys"},
	"io/ioutil":     {"ReadDir", "ReadAll"},
}

var unsimPkgs = map[string]bool{"os/exec": true, "net": true, "net/http": true, "sync": true, "sync/atomic": true, "os/signal": true, "os/user": true, "context": true, "runtime": true, "unsafe": true, "plugin": true, "syscall": true}

func fatal(format string, a ...any) {
	fmt.Fprintf(os.Stderr, "instrument: "+format+"\n", a...)
	os.Exit(2)
}

type pkgInfo struct {
	dir     string
	path    string
	files   []string
	imports []string
	asts    []*ast.File
	tpkg    *types.Package
	info    *types.Info
}

func main() {
	src := flag.String("src", "/repo", "working tree of the repository under test")
	dst := flag.String("dst", "", "scratch directory (must exist, empty)")
	simrtDir := flag.String("simrt", "", "directory with the simrt package sources")
	harnessDir := flag.String("harness", "", "directory with the worker main package sources")
	flag.Parse()
	if *dst == "" || *simrtDir == "" {
		fatal("usage: instrument -src DIR -dst DIR -simrt DIR [-harness DIR]")
	}
	rep := &Report{Sites: map[string]int{}}

	// 1. copy the tree
	err := filepath.WalkDir(*src, func(p string, d fs.DirEntry, err error) error {
		if err != nil {
			return err
		}
		rel, _ := filepath.Rel(*src, p)
		if d.IsDir() {
			if d.Name() == ".git" {
				return filepath.SkipDir
			}
			return os.MkdirAll(filepath.Join(*dst, rel), 0o755)
		}
		if !d.Type().IsRegular() {
			return nil
		}
		b, err := os.ReadFile(p)
		if err != nil {
			return err
		}
		return os.WriteFile(filepath.Join(*dst, rel), b, 0o644)
	})
	if err != nil {
		fatal("copy: %v", err)
	}

	// 2. module path and go directive
	gomod, err := os.ReadFile(filepath.Join(*dst, "go.mod"))
	if err != nil {
		fatal("go.mod: %v", err)
	}
	m := regexp.MustCompile(`(?m)^module\s+(\S+)`).FindSubmatch(gomod)
	if m == nil {
		fatal("no module line in go.mod")
	}
	rep.Module = string(m[1])
	goRe := regexp.MustCompile(`(?m)^go\s+(\d+)\.(\d+)(\.\d+)?\s*$`)
	if g := goRe.FindSubmatch(gomod); g != nil {
		var maj, min int
		fmt.Sscan(string(g[1]), &maj)
		fmt.Sscan(string(g[2]), &min)
		if maj == 1 && min < 23 {
			gomod = goRe.ReplaceAll(gomod, []byte("go 1.23"))
		}
	} else {
		gomod = append(gomod, []byte("\ngo 1.23\n")...)
	}
	gomod = regexp.MustCompile(`(?m)^toolchain\s+\S+\s*$`).ReplaceAll(gomod, nil)
	if err := os.WriteFile(filepath.Join(*dst, "go.mod"), gomod, 0o644); err != nil {
		fatal("%v", err)
	}
	rep.GoVersion = string(goRe.Find(gomod))

	// 3. discover packages from the root main package
	fset := token.NewFileSet()
	pkgs := map[string]*pkgInfo{}
	order := []string{}
	var visit func(path string, stack []string)
	visit = func(path string, stack []string) {
		if _, ok := pkgs[path]; ok {
			return
		}
		for _, s := range stack {
			if s == path {
				fatal("import cycle through %s", path)
			}
		}
		dir := filepath.Join(*dst, strings.TrimPrefix(strings.TrimPrefix(path, rep.Module), "/"))
		bp, err := build.Default.ImportDir(dir, 0)
		if err != nil {
			if _, ok := err.(*build.NoGoError); ok {
				fatal("package %s has no Go files", path)
			}
			fatal("package %s: %v", path, err)
		}
		pi := &pkgInfo{dir: dir, path: path}
		for _, f := range bp.GoFiles {
			pi.files = append(pi.files, filepath.Join(dir, f))
		}
		sort.Strings(pi.files)
		for _, f := range pi.files {
			af, err := parser.ParseFile(fset, f, nil, parser.ParseComments|parser.SkipObjectResolution)
			if err != nil {
				fatal("parse %s: %v", f, err)
			}
			pi.asts = append(pi.asts, af)
		}
		for _, imp := range bp.Imports {
			if imp == rep.Module || strings.HasPrefix(imp, rep.Module+"/") {
				pi.imports = append(pi.imports, imp)
			}
		}
		sort.Strings(pi.imports)
		for _, imp := range pi.imports {
			visit(imp, append(stack, path))
		}
		pkgs[path] = pi
		order = append(order, path)
	}
	visit(rep.Module, nil)
	rep.Packages = order

	// 4. type-check in dependency order
	std := importer.ForCompiler(fset, "source", nil)
	imp := importerFunc(func(path string) (*types.Package, error) {
		if p, ok := pkgs[path]; ok && p.tpkg != nil {
			return p.tpkg, nil
		}
		return std.Import(path)
	})
	for _, path := range order {
		pi := pkgs[path]
		pi.info = &types.Info{Types: map[ast.Expr]types.TypeAndValue{}, Uses: map[*ast.Ident]types.Object{}, Defs: map[*ast.Ident]types.Object{}}
		var terrs []string
		conf := types.Config{Importer: imp, Error: func(err error) { terrs = append(terrs, err.Error()) }}
		tp, _ := conf.Check(path, fset, pi.asts, pi.info)
		if len(terrs) > 0 {
			fatal("tree does not type-check (%s): %s", path, strings.Join(terrs[:min(3, len(terrs))], "; "))
		}
		pi.tpkg = tp
	}

	// 5. rewrite
	simrtImport := rep.Module + "/simrt"
	for _, path := range order {
		pi := pkgs[path]
		for i, af := range pi.asts {
			fname := pi.files[i]
			srcBytes, err := os.ReadFile(fname)
			if err != nil {
				fatal("%v", err)
			}
			rel, _ := filepath.Rel(*dst, fname)
			edits := []edit{}
			usedPkgs := map[string]string{} // import path -> local name
			add := func(pos token.Pos, del int, text string) {
				edits = append(edits, edit{off: fset.Position(pos).Offset, del: del, text: text, ord: len(edits)})
			}
			site := func(pos token.Pos, kind string) {
				rep.Sites[kind]++
				rep.SiteList = append(rep.SiteList, fmt.Sprintf("%s:%d %s", rel, fset.Position(pos).Line, kind))
			}
			isMainPkg := af.Name.Name == "main"
			for _, is := range af.Imports {
				ip := strings.Trim(is.Path.Value, `"`)
				if unsimPkgs[ip] {
					rep.Unsimulated = append(rep.Unsimulated, fmt.Sprintf("%s:%d import %s", rel, fset.Position(is.Pos()).Line, ip))
				}
			}
			ast.Inspect(af, func(n ast.Node) bool {
				switch x := n.(type) {
				case *ast.SelectorExpr:
					id, ok := x.X.(*ast.Ident)
					if !ok {
						return true
					}
					pn, ok := pi.info.Uses[id].(*types.PkgName)
					if !ok {
						return true
					}
					ip := pn.Imported().Path()
					if tbl, ok := rewrites[ip]; ok {
						if to, ok := tbl[x.Sel.Name]; ok {
							add(x.Pos(), int(x.End()-x.Pos()), "simrt."+to)
							usedPkgs[ip] = pn.Name()
							site(x.Pos(), ip+"."+x.Sel.Name)
							return false
						}
					}
					for _, u := range unsim[ip] {
						if u == x.Sel.Name {
							rep.Unsimulated = append(rep.Unsimulated, fmt.Sprintf("%s:%d %s.%s", rel, fset.Position(x.Pos()).Line, ip, u))
						}
					}
				case *ast.RangeStmt:
					if t := pi.info.TypeOf(x.X); t != nil {
						if _, ok := t.Underlying().(*types.Map); ok {
							p := fset.Position(x.X.Pos())
							add(x.X.Pos(), 0, fmt.Sprintf("simrt.MapSeqAt(%q, ", fmt.Sprintf("%s:%d", rel, p.Line)))
							add(x.X.End(), 0, ")")
							site(x.X.Pos(), "range-map")
						} else if _, ok := t.Underlying().(*types.Chan); ok {
							rep.Unsimulated = append(rep.Unsimulated, fmt.Sprintf("%s:%d range over channel", rel, fset.Position(x.Pos()).Line))
						}
					}
					add(x.Body.Lbrace+1, 0, "simrt.Tick();")
					rep.Sites["tick"]++
				case *ast.ForStmt:
					add(x.Body.Lbrace+1, 0, "simrt.Tick();")
					rep.Sites["tick"]++
				case *ast.FuncDecl:
					if x.Body != nil {
						t := "simrt.Tick();"
						if isMainPkg && x.Recv == nil && x.Name.Name == "main" {
							t += "defer simrt.AtExit();"
							site(x.Pos(), "main.AtExit")
						}
						add(x.Body.Lbrace+1, 0, t)
						rep.Sites["tick"]++
					}
				case *ast.FuncLit:
					add(x.Body.Lbrace+1, 0, "simrt.Tick();")
					rep.Sites["tick"]++
				case *ast.GoStmt:
					rep.Unsimulated = append(rep.Unsimulated, fmt.Sprintf("%s:%d go statement", rel, fset.Position(x.Pos()).Line))
				case *ast.SelectStmt:
					rep.Unsimulated = append(rep.Unsimulated, fmt.Sprintf("%s:%d select statement", rel, fset.Position(x.Pos()).Line))
				case *ast.ChanType:
					rep.Unsimulated = append(rep.Unsimulated, fmt.Sprintf("%s:%d channel type", rel, fset.Position(x.Pos()).Line))
				}
				return true
			})
			if len(edits) == 0 {
				continue
			}
			add(af.Name.End(), 0, fmt.Sprintf("; import simrt %q", simrtImport))
			sort.SliceStable(edits, func(a, b int) bool {
				if edits[a].off != edits[b].off {
					return edits[a].off > edits[b].off
				}
				return edits[a].ord > edits[b].ord
			})
			out := srcBytes
			for _, e := range edits {
				out = append(out[:e.off:e.off], append([]byte(e.text), out[e.off+e.del:]...)...)
			}
			ips := make([]string, 0, len(usedPkgs))
			for ip := range usedPkgs {
				ips = append(ips, ip)
			}
			sort.Strings(ips)
			for _, ip := range ips {
				out = append(out, []byte(fmt.Sprintf("\nvar _ = %s.%s\n", usedPkgs[ip], keepalive[ip]))...)
			}
			if err := os.WriteFile(fname, out, 0o644); err != nil {
				fatal("%v", err)
			}
			rep.Files++
		}
	}

	// 6. runtime and worker
	copyPkg := func(from, to string) {
		ents, err := os.ReadDir(from)
		if err != nil {
			fatal("%v", err)
		}
		os.MkdirAll(to, 0o755)
		for _, e := range ents {
			if e.IsDir() || !strings.HasSuffix(e.Name(), ".go") || strings.HasSuffix(e.Name(), "_test.go") {
				continue
			}
			b, err := os.ReadFile(filepath.Join(from, e.Name()))
			if err != nil {
				fatal("%v", err)
			}
			b = []byte(strings.ReplaceAll(string(b), "github.com/monstermichl/typeshell", rep.Module))
			if err := os.WriteFile(filepath.Join(to, e.Name()), b, 0o644); err != nil {
				fatal("%v", err)
			}
		}
	}
	copyPkg(*simrtDir, filepath.Join(*dst, "simrt"))
	if *harnessDir != "" {
		copyPkg(*harnessDir, filepath.Join(*dst, "simharness"))
	}
	sort.Strings(rep.SiteList)
	sort.Strings(rep.Unsimulated)
	json.NewEncoder(os.Stdout).Encode(rep)
}

type importerFunc func(path string) (*types.Package, error)

func (f importerFunc) Import(path string) (*types.Package, error) { return f(path) }

// simharness is the worker: it lives inside the instrumented scratch copy of
// the repository under test, reads one explicit plan and executes it against
// the real lexer/parser/transpiler/converters through their public API.
// It draws nothing at random and reads no clock; its output is a pure
// function of the plan and the code under test.
package main

import (
	"bufio"
	"crypto/sha256"
	"encoding/hex"
	"encoding/json"
	"flag"
	"fmt"
	"os"
	"runtime"
	"strings"

	"github.com/monstermichl/typeshell/converters/bash"
	"github.com/monstermichl/typeshell/converters/batch"
	"github.com/monstermichl/typeshell/simrt"
	"github.com/monstermichl/typeshell/transpiler"
)

const modulePath = "github.com/monstermichl/typeshell"

type transpileFn func(path string, c transpiler.Converter) (string, error)

func newTranspiler() transpileFn {
	t := transpiler.New()
	return t.Transpile
}

func newConverter(target string) transpiler.Converter {
	switch target {
	case "bash":
		return bash.New()
	case "batch":
		return batch.New()
	}
	panic("simharness: unknown target " + target)
}

func topFrame() string {
	pcs := make([]uintptr, 256)
	n := runtime.Callers(3, pcs)
	frames := runtime.CallersFrames(pcs[:n])
	for {
		f, more := frames.Next()
		if strings.HasPrefix(f.Function, modulePath) && !strings.Contains(f.Function, "/simrt.") &&
			!strings.HasPrefix(f.Function, "main.") && !strings.Contains(f.Function, "/simharness") {
			fn := strings.TrimPrefix(f.Function, modulePath+"/")
			return fn
		}
		if !more {
			break
		}
	}
	return "?"
}

// call runs one Transpile under recover and classifies the outcome.
// extraConv: a converter of this target is constructed AFTER the one the call uses and before
// Transpile runs (a caller that builds its converters up front, as tsh does); it is never used.
var extraConv string

func call(w *simrt.World, fn transpileFn, path, target string, res *simrt.CallResult, wantScript bool) {
	w.BeginCall()
	traceStart := len(w.Trace)
	var script string
	var err error
	func() {
		defer func() {
			if r := recover(); r != nil {
				if b, ok := r.(simrt.Budget); ok {
					res.Kind = "budget"
					res.BudgetKind = b.Kind
					res.Err = b.Error()
					return
				}
				res.Kind = "panic"
				res.PanicMsg = fmt.Sprint(r)
				res.PanicTop = topFrame()
			}
		}()
		conv := newConverter(target)
		if extraConv != "" {
			_ = newConverter(extraConv)
		}
		script, err = fn(path, conv)
	}()
	res.Ticks = w.CallTicks()
	res.IO = w.CallIO()
	res.MaxDepth = w.MaxDepth
	if res.Kind == "" {
		switch {
		case err != nil && script != "":
			res.Kind = "both"
		case err != nil:
			res.Kind = "error"
		case script != "":
			res.Kind = "script"
		default:
			res.Kind = "neither"
		}
		if err != nil {
			func() {
				defer func() {
					if r := recover(); r != nil {
						// a non-nil error whose Error() panics (a typed nil pointer): an error without a message
						res.Kind = "panic"
						res.PanicMsg = "the returned error value panics in Error(): " + fmt.Sprint(r)
						res.PanicTop = fmt.Sprintf("%T.Error", err)
					}
				}()
				res.Err = err.Error()
				res.ErrEmpty = res.Err == ""
			}()
		}
		if script != "" {
			h := sha256.Sum256([]byte(script))
			res.ScriptSHA = hex.EncodeToString(h[:])
			res.ScriptLen = len(script)
			if wantScript {
				b := simrt.Bytes(script)
				res.Script = &b
			}
		}
	}
	_ = traceStart
}

func runCase(c *simrt.Case) *simrt.CallResult {
	res := &simrt.CallResult{ID: c.ID}
	w := simrt.NewWorld(&c.World)
	simrt.W = w
	defer func() { simrt.W = nil }()
	tr := newTranspiler()
	for _, t := range c.Warmup {
		call(w, tr, c.Path, t, &simrt.CallResult{}, false)
	}
	call(w, tr, c.Path, c.Target, res, c.ReturnScript)
	res.TraceDigest = w.TraceDigest()
	if c.ReturnTrace {
		res.Trace = w.Trace
	}
	for _, f := range w.Faults {
		res.FaultsFired = append(res.FaultsFired, f.Fired)
	}
	for _, e := range w.Events {
		if e.Done {
			res.EventsDone++
		}
	}
	res.MapRanges, res.MapNonCanon = w.MapRanges, w.MapNonCanonical
	return res
}

func runHistory(h *simrt.History, emit func(*simrt.CallResult)) {
	w := simrt.NewWorld(&h.World)
	simrt.W = w
	objs := map[int]transpileFn{}
	for i := range h.Steps {
		st := &h.Steps[i]
		res := &simrt.CallResult{ID: fmt.Sprint(i), StepKind: st.Kind}
		switch st.Kind {
		case "transpile":
			fn, ok := objs[st.Obj]
			if !ok {
				fn = newTranspiler()
				objs[st.Obj] = fn
			}
			w.MapMode, w.MapSeed = st.MapMode, st.MapSeed
			w.Events = nil
			for _, e := range st.Events {
				c := *e
				c.AtSeq += w.IOSeq
				c.Done = false
				w.Events = append(w.Events, &c)
			}
			t0 := len(w.Trace)
			r0, n0 := w.MapRanges, w.MapNonCanonical
			extraConv = st.ExtraConv
			call(w, fn, st.Path, st.Target, res, false)
			extraConv = ""
			res.Trace = append([]simrt.TraceEv(nil), w.Trace[t0:]...)
			res.MapRanges, res.MapNonCanon = w.MapRanges-r0, w.MapNonCanonical-n0
			for _, e := range w.Events {
				if e.Done {
					res.EventsDone++
				} else if e.Kind == "write" {
					// the other process finishes its edit after the call: the state of the
					// world after a step never depends on how many I/O calls the step made
					w.Put(e.Path, false, e.Data)
					e.Done = true
				}
			}
		case "write":
			if st.KeepMtime {
				w.PutKeepMtime(st.File, st.Data)
			} else {
				w.Put(st.File, false, st.Data)
			}
			res.Kind = "ok"
		case "remove":
			w.Del(st.File)
			res.Kind = "ok"
		case "symlink":
			w.PutLink(st.File, st.Link)
			res.Kind = "ok"
		case "hardlink":
			w.PutHardLink(st.File, st.Link) // (nothing happens unless Link is a regular file)
			res.Kind = "ok"
		case "move":
			w.Move(st.From, st.To)
			res.Kind = "ok"
		case "chdir":
			w.Cwd = st.Dir
			res.Kind = "ok"
		case "exe":
			w.Exe = st.Dir
			res.Kind = "ok"
		case "epoch":
			w.Epoch += st.Jump
			res.Kind = "ok"
		default:
			res.Kind = "badstep"
		}
		res.TraceDigest = w.TraceDigest()
		emit(res)
	}
	simrt.W = nil
}

func main() {
	planPath := flag.String("plan", "", "plan file (JSON)")
	outPath := flag.String("out", "", "result file (JSON lines)")
	flag.Parse()
	raw, err := os.ReadFile(*planPath)
	if err != nil {
		fmt.Fprintln(os.Stderr, "simharness:", err)
		os.Exit(97)
	}
	var plan simrt.WorkerPlan
	if err := json.Unmarshal(raw, &plan); err != nil {
		fmt.Fprintln(os.Stderr, "simharness: bad plan:", err)
		os.Exit(97)
	}
	out, err := os.Create(*outPath)
	if err != nil {
		fmt.Fprintln(os.Stderr, "simharness:", err)
		os.Exit(97)
	}
	bw := bufio.NewWriter(out)
	enc := json.NewEncoder(bw)
	emit := func(r *simrt.CallResult) {
		enc.Encode(r)
		bw.Flush() // one line per finished call: a fatal crash loses only the call in flight
	}
	switch plan.Mode {
	case "cases":
		for i := range plan.Cases {
			// announce the case first so that a fatal error is attributable
			fmt.Fprintf(bw, "{\"begin\":%d}\n", i)
			bw.Flush()
			emit(runCase(&plan.Cases[i]))
		}
	case "history":
		runHistory(plan.History, emit)
	default:
		fmt.Fprintln(os.Stderr, "simharness: unknown mode", plan.Mode)
		os.Exit(97)
	}
	fmt.Fprintln(bw, `{"end":true}`)
	bw.Flush()
	out.Close()
}

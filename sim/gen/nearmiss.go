package gen

import "strings"

// Near-miss fragments: syntactically plausible lines that put values where
// another kind of value is expected (void call as operand, multi-value call
// in single-value position, app call as operand, subscripts of non-slices …).
// They are spliced into valid programs after a small prelude that defines the
// names they use. None of this is an oracle: C13 only asks that the
// transpiler answers with a script or an error.
const NearMissPrelude = `func nmVoid() {
}
func nmOne() int {
	return 1
}
func nmTwo() (int, string) {
	return 1, "a"
}
func nmSlice() []int {
	return []int{1, 2}
}
func nmStr(s string) string {
	return s
}
func nmSplit() ([]int, []int) {
	return []int{1}, []int{2, 3}
}
func nmPair() (int, int) {
	return 1, 2
}
var nmI int = 3
var nmS string = "abc"
var nmB bool = true
var nmL []int = []int{1, 2, 3}
var nmLS []string = []string{"a", "b"}
`

var NearMissLines = []string{
	// composite literals and calls in the headers of for, if and switch, closed and unclosed
	`for s := []int{1, 2}; len(s) < 4; {` + "\n}", `for s := []int{1, 2; len(s) < 4; {` + "\n}", `for i := 0; i < len([]int{1, 2}); i++ {` + "\n}", `for i := 0; i < len([]int{1, 2); i++ {` + "\n}",
	`for _, v := range []int{1, 2} {` + "\n}", `for i, v := range []string{"a" {` + "\n}", `if len([]int{1}) > 0 {` + "\n}", `if len([]int{1) > 0 {` + "\n}", `switch len([]string{"a"}) {` + "\ncase 1:\n}", `switch []int{1}[0] {` + "\ncase 1:\n}",
	`for i := nmOne(; i < 2; i++ {` + "\n}", `for i := 0; i < nmStr("a"; i++ {` + "\n}", `for nmB && (nmI > 1 {` + "\n}",
	// the blank identifier in every declaration and assignment form
	`var _ int`, `var nmX, _ int`, `var _, nmY string`, `var _ = 1`, `var _, _ int`, `_ := 1`, `_, _ = nmTwo()`, `_, nmZ := nmTwo()`, `_ = nmOne()`, `var _ []int`, `for _, _ = range nmL {` + "\n}", `func nmF(_ int) {` + "\n}", `nmStr(_)`,
	// Go's statement keywords in the last position of the last clause or block
	`switch nmI {` + "\ncase 1:\nfallthrough\n}", `switch nmI {` + "\ncase 1:\nfallthrough\ndefault:\n}", `switch nmI {` + "\ncase 1:\ndefault:\nfallthrough\n}", `switch nmI {` + "\ncase 1:\nfallthrough\nprint(1)\ncase 2:\n}",
	`for nmB {` + "\nfallthrough\n}", `if nmB {` + "\nfallthrough\n}", `fallthrough`, `switch nmI {` + "\ncase 1:\ngoto L\n}", `for nmB {` + "\nbreak L\n}", `for nmB {` + "\ncontinue L\n}", `L: for nmB {` + "\nbreak\n}",
	// Go idioms the language does not have (a change may add one of them)
	`x := make([]int, 3)`, `x := make([]int, -1)`, `x := make([]string, 999999999999999999)`, `x := make([]int, nmI)`, `x := make([]int)`, `nmL = append(nmL, 1)`, `nmL = append(nmL, nmL...)`,
	`x := cap(nmL)`, `x := new(int)`, `const c = 1`, `const c int = -1`, `type T int`, `type T struct {` + "\n}", `m := map[string]int{}`, `defer nmVoid()`, `go nmVoid()`,
	`for i := range 10 {` + "\n}", `for range nmL {` + "\n}", `x := nmL[1:2]`, `x := nmL[-1]`, `x := nmS[-1:]`, `var f float64 = 1.5`, `x := 'a'`, `x := 0x10`, `x := 1_000`, `x := 1e3`, `nmI <<= 1`, `x := nmI &^ 1`,
	`if x := 1; x > 0 {` + "\n}", `switch x := nmI; x {` + "\ncase 1:\n}", `func() {` + "\n}()", `x := func() int {` + "\nreturn 1\n}", `nmL[0], nmL[1] = nmL[1], nmL[0]`, `var ( a int` + "\n)", `goto L`, `L:`,
	`x1 := 1 + nmVoid()`,
	`x2 := nmVoid() + 1`,
	`x3 := nmVoid()`,
	`var x4 int = nmVoid()`,
	`var x5 = nmVoid()`,
	`print(nmVoid())`,
	`print(nmTwo())`,
	`x6 := nmTwo() + 1`,
	`x7 := 1 + nmTwo()`,
	`x8 := nmTwo()`,
	`x9, x10, x11 := nmTwo()`,
	`nmI = nmTwo()`,
	`nmI = nmVoid()`,
	`nmI += nmVoid()`,
	`nmI += nmTwo()`,
	`if nmVoid() {` + "\n}",
	`if nmTwo() {` + "\n}",
	`if nmVoid() == 1 {` + "\n}",
	`if nmTwo() == nmTwo() {` + "\n}",
	`for nmVoid() {` + "\n}",
	`for i := nmVoid(); i < 2; i++ {` + "\n}",
	`for i := 0; nmVoid(); i++ {` + "\n}",
	`for i := 0; i < 2; nmVoid() {` + "\n}",
	`for a9, b9 := nmTwo(); a9 < 2; a9++ {` + "\n}",
	`for nmI = 0; nmI < 2; nmI++ {` + "\n}",
	`for print(1); nmB; nmI++ {` + "\n}",
	`for nmI := 0; nmI < 2; nmI++ {` + "\n}",
	`for i := 0; i < 2; i += nmVoid() {` + "\n}",
	`for i := 0; i < 2; print(i) {` + "\n}",
	`for i := 0; i < 2; j := 1 {` + "\n}",
	`for i, v := range nmVoid() {` + "\n}",
	`for i, v := range nmTwo() {` + "\n}",
	`for i, v := range nmI {` + "\n}",
	`for i, v := range @ls() {` + "\n}",
	`switch nmVoid() {` + "\ncase 1:\n}",
	`switch nmTwo() {` + "\ncase 1:\n}",
	`switch nmI {` + "\ncase nmVoid():\n}",
	`switch nmL {` + "\ncase 1:\n}",
	`switch @ls() {` + "\ncase 1:\n}",
	`nmL[nmVoid()] = 1`,
	`nmL[0] = nmVoid()`,
	`nmL[nmTwo()] = 1`,
	`nmL[0] = nmTwo()`,
	`x12 := nmL[nmVoid()]`,
	`x13 := nmS[nmVoid()]`,
	`x14 := nmS[nmVoid():]`,
	`x15 := nmS[:nmTwo()]`,
	`x16 := nmI[0]`,
	`x17 := nmB[0]`,
	`x18 := nmVoid()[0]`,
	`x19 := nmSlice()[0]`,
	`x20 := nmL[0][0]`,
	`x21 := nmS[0][0]`,
	`x22 := nmL[0:1]`,
	`x23 := len(nmVoid())`,
	`x24 := len(nmTwo())`,
	`x25 := len(nmI)`,
	`x26 := len(@ls())`,
	`x27 := itoa(nmVoid())`,
	`x28 := itoa(nmTwo())`,
	`x29 := itoa(nmS)`,
	`x30 := exists(nmVoid())`,
	`x31 := read(nmVoid())`,
	`x32 := read(nmTwo())`,
	`write(nmVoid(), "a")`,
	`write("a", nmVoid())`,
	`write("a", "b", nmVoid())`,
	`write("a", "b", nmTwo())`,
	`write(nmTwo())`,
	`x33 := copy(nmVoid(), nmL)`,
	`x34 := copy(nmL, nmVoid())`,
	`x35 := copy(nmL, nmLS)`,
	`x36 := copy(nmI, nmL)`,
	`x37 := copy([]int{}, nmL)`,
	`x38 := copy(nmSlice(), nmL)`,
	`panic(nmVoid())`,
	`panic(nmTwo())`,
	`panic(1)`,
	`x39 := input(nmVoid())`,
	`x40 := input(1)`,
	`x41 := !nmVoid()`,
	`x42 := !nmTwo()`,
	`x43 := nmVoid() && true`,
	`x44 := true || nmVoid()`,
	`x45 := nmTwo() && nmTwo()`,
	`x46 := (nmVoid())`,
	`x47 := (nmTwo())`,
	`x48 := []int{nmVoid()}`,
	`x49 := []int{nmTwo()}`,
	`x50 := []string{1}`,
	`x51 := [][]int{}`,
	`x52 := []int{1,}`,
	`x53 := []error{nil}`,
	`x54 := nil`,
	`var x55 error = nil`,
	`x56 := nil + nil`,
	`x57 := nmStr(nmVoid())`,
	`x58 := nmStr(nmTwo())`,
	`x59 := nmStr()`,
	`x60 := nmStr("a", "b")`,
	`nmVoid(1)`,
	`nmVoid()()`,
	`nmVoid`,
	`nmI`,
	`nmI()`,
	`nmL()`,
	`x61 := @ls()`,
	`x62, x63 := @ls()`,
	`x64, x65, x66, x67 := @ls()`,
	`x68 := @ls() + 1`,
	`x69 := 1 + @ls()`,
	`x70 := @ls() | nmOne()`,
	`x71 := @ls(nmVoid())`,
	`x72 := @ls(nmTwo())`,
	`x73 := @ls(@ls())`,
	`@ls() | @`,
	`@ls() |`,
	`@(1)`,
	`@1()`,
	`print(@ls())`,
	`nmI = @ls()`,
	`nmS = @ls()`,
	`nmS, nmS, nmI = @ls()`,
	`nmI, nmS = nmTwo()`,
	`nmS, nmI = nmTwo()`,
	`nmI, nmS = 1`,
	`nmI = 1, 2`,
	`nmI, nmI = 1, 2`,
	`nmUndefined = 1`,
	`nmUndefined++`,
	`nmS++`,
	`nmL++`,
	`nmL += 1`,
	`nmB += true`,
	`nmS -= "a"`,
	`x74, nmI := 1, 2`,
	`nmI, nmS := 1, "a"`,
	`var x75, x76 int = nmTwo()`,
	`var x77, x78 = nmTwo()`,
	`var x79 []int = nmSlice()`,
	`var x80 [] = 1`,
	`var x81 []`,
	`var`,
	`var x82`,
	`func nested() {` + "\nfunc inner() {\n}\n}",
	`func nmVoid() {` + "\n}",
	`func dup(a int, a int) {` + "\n}",
	`func shadow(nmI int) {` + "\n}",
	`func ret() int {` + "\n}",
	`func ret2() int {` + "\nreturn\n}",
	`func ret3() {` + "\nreturn 1\n}",
	`func ret4() (int, int) {` + "\nreturn nmTwo()\n}",
	`func ret5() (int, string) {` + "\nreturn nmTwo()\n}",
	`func ret6() int {` + "\nreturn nmVoid()\n}",
	`func ret7() () {` + "\n}",
	`func ret8() (int,) {` + "\nreturn 1\n}",
	`func rec() int {` + "\nreturn rec()\n}",
	`func (x int) m() {` + "\n}",
	`func () {` + "\n}",
	`func f9(a []) {` + "\n}",
	`func f10(a) {` + "\n}",
	`return`,
	`return 1`,
	`break`,
	`continue`,
	`x83 := nmOne().y`,
	`x84 := nmS.len`,
	`x85 := a.b.c()`,
	`x86 := nmI.nmOne()`,
	`x87 := .nmOne()`,
	`x88 := strings.Contains("a")`,
	`x89 := 99999999999999999999999`,
	`x90 := 1.5`,
	`x91 := -`,
	`x92 := 1 +`,
	`x93 := ((((((((((1))))))))))`,
	`x94 := "a" < "b"`,
	`x95 := true < false`,
	`x96 := nmL == nmL`,
	`x97 := nmVoid() == nmVoid()`,
	`x98 := 1 == "a"`,
	`x99 := "a" + 1`,
	`x100 := true + true`,
	`x101 := nmL + nmL`,
	`x102 := 1 / 0`,
	`x103 := 1 % nmVoid()`,
	`x104 := nmI == nmVoid()`,
	`if {` + "\n}",
	`if true {` + "\n} else",
	`if true {` + "\n} else if {\n}",
	`if true {` + "\n} else else {\n}",
	`for ; ; {` + "\n}",
	`for ;; {` + "\nbreak\n}",
	`for i := 0; ; {` + "\nbreak\n}",
	`for i := range {` + "\n}",
	`for i, := range nmL {` + "\n}",
	`for , v := range nmL {` + "\n}",
	`for i, v, w := range nmL {` + "\n}",
	`for i, nmI := range nmL {` + "\n}",
	`for nmI := range nmL {` + "\n}",
	`switch {` + "\ndefault:\ndefault:\n}",
	`switch {` + "\ncase:\n}",
	`switch {` + "\nprint(1)\n}",
	`switch nmI {` + "\ncase 1: case 2:\n}",
	`switch nmI {`,
	`switch nmI {` + "\ncase 3:\nbreak\n}",
	`switch nmI {` + "\ncase 3:\ncontinue\n}",
	`switch nmI {` + "\ndefault:\nbreak\n}",
	`switch {` + "\ncase nmB:\nif nmB {\nbreak\n}\n}",
	`if nmB {` + "\nbreak\n}",
	`if nmB {` + "\ncontinue\n}",
	`if nmB {` + "\nreturn\n}",
	`for nmB {` + "\nswitch nmI {\ncase 3:\nbreak\n}\nbreak\n}",
	`for nmB {` + "\nfunc inner2() {\n}\nbreak\n}",
	`for i := 0; i < 2; i++ {` + "\nreturn 1\n}",
	`{`,
	`}`,
	`)`,
	`(`,
	`]`,
	`"`,
	"`",
	`/*`,
	`*/`,
	`import "strings"`,
	`import x "h1.tsh"`,
	// switch statements with few or empty clauses
	`switch nmI {` + "\ndefault:\n}",
	`switch nmI {` + "\n}",
	`switch {` + "\ndefault:\n}",
	`switch {` + "\n}",
	`switch nmI {` + "\ndefault:\n// nothing\n}",
	`switch nmI {` + "\ncase 1:\ndefault:\n}",
	`switch nmI {` + "\ncase 1:\n}",
	`switch nmI {` + "\ndefault:\nprint(1)\n}",
	`switch nmS {` + "\ndefault:\n\n\n}",
	`switch nmB {` + "\ncase true:\ncase false:\ndefault:\n}",
	`switch nmI {` + "\ndefault:\ndefault:\n}",
	`if nmB {` + "\n} else {\n}",
	`if nmB {` + "\n} else if nmB {\n} else {\n}",
	`for nmB {` + "\n}",
	`for {` + "\nbreak\n}",
	`for i90 := 0; i90 < 1; i90++ {` + "\n}",
	`for _, e90 := range nmL {` + "\n}",
	// declarations with several names, an explicit type and ONE multi-value call (or too few / too many values)
	`var x94, x95 []int = nmSplit()`,
	`var x96, x97 []string = nmSplit()`,
	`var x98, x99 int = nmPair()`,
	`var x100, x101 int = nmTwo()`,
	`var x102, x103, x104 []int = nmSplit()`,
	`var x105 []int = nmSplit()`,
	`var x106, x107 []int = nmSplit(), nmSplit()`,
	`var x108, x109 []int = nmSlice()`,
	`var x110, x111 []int = nil`,
	`var x112 []int = nil`,
	`nmL = nil`,
	`nmL, nmLS = nil, nil`,
	`x113, x114 := nmSplit()` + "\nx113, x114 = nmSplit()",
	`x115, x116 := nmSplit()` + "\nx115, x116 = nmSlice()",
	`var x117, x118 string = nmStr("a")`,
	`var x119, x120 bool = nmTwo()`,
	// program names of app calls that are odd strings: blank, blanks, a tab, quotes, a path with blanks
	`@" "()`,
	`@"  "("a")`,
	`@"\t"()`,
	`@""()`,
	`x90 := @" "("a")`,
	`@ls() | @" "()`,
	`@"my prog"("a")`,
	`@"\"quoted\""()`,
	`@"a b/c d"("x") | @"\t "("y")`,
	// string literals with text before an escape the lexer refuses (a Windows path, a regular expression)
	`x91 := "C:\Users\demo"`,
	`print("abc\q")`,
	`x92 := "head\ tail"`,
	`print("100\%")`,
	`x93 := "\d+ items"`,
	`print("unterminated \`,
	// imports whose path runs through a regular file, ends in a separator, or holds odd bytes
	`import nm1 "main.tsh/x"`,
	`import nm2 "main.tsh/"`,
	`import nm3 "./main.tsh/../main.tsh"`,
	`import nm4 "` + strings.Repeat("n", 300) + `.tsh"`,
	`import nm5 "a\x00b.tsh"`,
	`import nm6 ""`,
	`import nm7 "."`,
	`import nm8 "/"`,
}

// SpliceNearMiss inserts the prelude and one or two near-miss lines into src.
func SpliceNearMiss(r *Rng, src string) (string, string) {
	head, body := "", src
	// keep an import header in front
	if i := strings.Index(src, "import ("); i >= 0 {
		if j := strings.Index(src[i:], "\n)"); j >= 0 {
			head, body = src[:i+j+3], src[i+j+3:]
		}
	} else if strings.HasPrefix(strings.TrimSpace(src), "import ") {
		if j := strings.Index(src, "\n"); j >= 0 {
			head, body = src[:j+1], src[j+1:]
		}
	}
	lines := strings.Split(body, "\n")
	frag := r.Pick(NearMissLines)
	desc := "nearmiss:" + frag
	if r.Chance(25) {
		// inside a function body
		frag = "func nmHost() {\n" + frag + "\n}\nnmHost()"
		desc += " (in func)"
	}
	at := len(lines)
	if r.Chance(30) {
		// inside an existing block: right after a line that opens one
		cands := []int{}
		for i, l := range lines {
			t := strings.TrimSpace(l)
			if strings.HasSuffix(t, "{") || strings.HasSuffix(t, ":") {
				cands = append(cands, i+1)
			}
		}
		if len(cands) > 0 {
			at = cands[r.Intn(len(cands))]
			desc += " (in block)"
		}
	} else if r.Chance(50) {
		// at a top-level position: after a line that closes a block or is unindented
		cands := []int{}
		for i, l := range lines {
			if l == "" || l == "}" {
				cands = append(cands, i+1)
			}
		}
		if len(cands) > 0 {
			at = cands[r.Intn(len(cands))]
		}
	}
	out := append([]string{}, lines[:at]...)
	out = append(out, frag)
	out = append(out, lines[at:]...)
	return head + NearMissPrelude + strings.Join(out, "\n") + "\n", desc
}

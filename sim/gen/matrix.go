package gen

import "strings"

// OperandMatrix enumerates (statement context x operand x placement): every
// expression slot of every statement form and builtin is filled with every
// kind of value the language has (void / single / multi-value calls, app
// calls, slices, nil, literals, undefined names, parenthesised variants).
// The programs are inputs for C13 (totality), not oracles.
func OperandMatrix() []string {
	contexts := []string{
		"x := %s", "var x int = %s", "var x = %s", "x, y := %s", "x, y := 1, %s", "x, y, z := %s",
		"nmI = %s", "nmS = %s", "nmI, nmS = %s", "nmI += %s", "nmS += %s", "nmL = %s",
		"nmL[%s] = 1", "nmL[0] = %s", "nmLS[0] = %s", "x := nmL[%s]", "x := nmS[%s]", "x := nmS[%s:]", "x := nmS[:%s]", "x := nmS[1:%s]",
		"print(%s)", "print(1, %s)", "panic(%s)", "write(%s, \"a\")", "write(\"a\", %s)", "write(\"a\", \"b\", %s)",
		"x := read(%s)", "x := exists(%s)", "x := len(%s)", "x := itoa(%s)", "x := input(%s)", "x := copy(%s, nmL)", "x := copy(nmL, %s)",
		"if %s {\n}", "if nmB {\n} else if %s {\n}", "for %s {\nbreak\n}", "for i := %s; i < 2; i++ {\n}", "for i := 0; %s; i++ {\nbreak\n}",
		"for i := 0; i < 2; i += %s {\n}", "for i, v := range %s {\n}", "for i := range %s {\n}",
		"switch %s {\ncase 1:\n}", "switch nmI {\ncase %s:\n}", "switch {\ncase %s:\n}", "switch %s {\ndefault:\nprint(1)\n}",
		"x := 1 + %s", "x := %s + 1", "x := %s + %s", "x := \"a\" + %s", "x := %s == 1", "x := %s == %s", "x := %s < 2", "x := !%s",
		"x := %s && true", "x := true || %s", "x := (%s)", "x := ((%s))", "x := 2 * (%s) - 1",
		"x := nmStr(%s)", "x := nmOne(%s)", "nmVoid(%s)", "x := []int{%s}", "x := []string{%s}", "x := @ls(%s)", "@ls(%s) | @grep(%s)", "a, b, c := @ls(%s)",
		"%s",
		"func h1() int {\nreturn %s\n}\nx := h1()",
		"func h2() (int, string) {\nreturn %s\n}\nx, y := h2()",
		"func h3() {\nreturn %s\n}\nh3()",
		"func h4() int {\nif nmB {\nreturn %s\n}\nreturn 1\n}\nx := h4()",
		"func h5() (int, string) {\nif nmB {\nreturn %s\n}\nreturn 1, \"a\"\n}\nx, y := h5()",
		"func h6() (string, string, int) {\nfor nmB {\nreturn %s\n}\nreturn \"\", \"\", 0\n}\na, b, c := h6()",
		"func h7() {\nswitch nmI {\ncase 1:\nreturn %s\n}\n}\nh7()",
		"func h8() []int {\nif nmB {\nreturn %s\n}\nreturn nmL\n}\nx := h8()",
		"func h11() int {\nif nmB {\n} else {\nreturn %s\n}\n}\nx := h11()",
		"func h12() int {\nswitch {\ndefault:\nreturn %s\n}\n}\nx := h12()",
		"func h13() int {\nswitch nmI {\ncase 1:\ndefault:\nreturn %s\n}\n}\nx := h13()",
		"func h14() int {\nfor nmB {\nreturn %s\n}\n}\nx := h14()",
		"func h15() int {\nif nmB {\nreturn %s\n}\n}\nx := h15()",
		"func h16() (int, string) {\nif nmB {\n// nothing\n} else if nmI == 1 {\n} else {\nreturn %s\n}\n}\nx, y := h16()",
		"func h17() int {\nif nmB {\nreturn 1\n} else {\nreturn %s\n}\n}\nx := h17()",
		"func h9(p int) int {\nreturn p\n}\nx := h9(%s)",
		"func h10(p []int, q string) {\n}\nh10(%s, %s)",
	}
	operands := []string{
		"nmVoid()", "nmOne()", "nmTwo()", "(nmTwo())", "(nmVoid())", "nmSlice()", "@ls()", "(@ls())", "@ls() | @grep(\"a\")",
		"nmL", "nmLS", "nmI", "nmS", "nmB", "nil", "1", "\"a\"", "true", "[]int{1}", "[]string{}", "1, 2", "nmUndefined", "nmUndefined()",
		"len(nmL)", "nmS[0]", "nmL[0]", "nmLS[0]", "read(\"f\")", "input()", "exists(\"f\")", "itoa(1)", "copy(nmL, nmL)", "nmStr(\"a\")", "-1", "",
	}
	out := []string{}
	for _, c := range contexts {
		for _, o := range operands {
			frag := strings.ReplaceAll(c, "%s", o)
			out = append(out, NearMissPrelude+frag+"\n")
			if !strings.HasPrefix(c, "func ") {
				out = append(out, NearMissPrelude+"func host() {\n"+frag+"\n}\nhost()\n")
			}
		}
	}
	return out
}

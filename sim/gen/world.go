package gen

import (
	"fmt"
	"path"
	"sort"
	"strings"
)

// WFile is one file of a generated world, path relative to the mount ("m/…")
// or to the executable directory ("x/…").
type WFile struct {
	Rel  string // mount-relative path, e.g. "main.tsh", "lib/h1.tsh"
	Data []byte
}

// GenWorld is a set of TypeShell source files with an import graph.
type GenWorld struct {
	Files   []WFile  // sorted by Rel; Files[i].Rel == Main for the main file
	Main    string   // mount-relative path of the main file
	Shape   string   // description of the import graph
	Closure []string // mount-relative paths of main + everything it (transitively) imports
	UsesStd []string // names of std files imported ("strings", "os")
	Hostile bool     // cycles, missing imports, … (C13 only)
	Decoys  []string // files nobody imports
	Pub     map[string][]FuncSig // public functions per file (mount-relative path)
	Edges   map[string][]string  // import edges between local files
	StdOf   map[string][]string  // std libraries imported per file
	StdFiles []WFile             // extra files of the std directory (library modules that take part in the import graph)
	NamePool bool                // every program of this world takes its function names and the programs it calls from one small pool
	AbsOK    bool                // import paths may be absolute: "{{MOUNT}}" stands for the directory the world is mounted at
}

// MountMark is replaced by the mount directory when a world is materialised.
const MountMark = "{{MOUNT}}"

// absSpelling spells the mount-relative file `to` as an absolute import path, in or out of normal form.
func absSpelling(r *Rng, to string) string {
	switch r.Intn(5) {
	case 0:
		return MountMark + "/./" + to
	case 1:
		return MountMark + "//" + to
	case 2:
		return MountMark + "/zz/../" + to
	case 3:
		return MountMark + "/" + path.Dir(to) + "/./" + path.Base(to)
	}
	return MountMark + "/" + to
}

// ClosureOf returns rel plus everything it transitively imports (sorted), and the std libraries used.
func (w *GenWorld) ClosureOf(rel string) ([]string, []string) {
	seen := map[string]bool{}
	std := map[string]bool{}
	var walk func(string)
	walk = func(f string) {
		if seen[f] {
			return
		}
		seen[f] = true
		for _, s := range w.StdOf[f] {
			std[s] = true
		}
		for _, t := range w.Edges[f] {
			walk(t)
		}
	}
	walk(rel)
	out := []string{}
	for f := range seen {
		out = append(out, f)
	}
	sort.Strings(out)
	stds := []string{}
	for s := range std {
		stds = append(stds, s)
	}
	sort.Strings(stds)
	return out, stds
}

// AddMain generates another main program that imports a subset of the
// existing library files of the world.
func AddMain(r *Rng, w *GenWorld, name string, stdPct int) {
	libs := []string{}
	for _, f := range w.Files {
		if f.Rel != w.Main && len(w.Pub[f.Rel]) > 0 {
			libs = append(libs, f.Rel)
		}
	}
	imps := []ModuleRef{}
	for i, l := range libs {
		if r.Chance(55) {
			alias := fmt.Sprintf("q%d", i)
			imps = append(imps, ModuleRef{Alias: alias, Name: alias, Path: relImport(name, l), Funcs: w.Pub[l]})
			w.Edges[name] = append(w.Edges[name], l)
		}
	}
	if r.Chance(stdPct) {
		imps = append(imps, ModuleRef{Alias: "", Name: "strings", Path: "strings", Funcs: StdStrings})
		w.StdOf[name] = append(w.StdOf[name], "strings")
	}
	f := RandomFeat(r)
	if w.NamePool {
		f.NamePool, f.Funcs, f.AppCalls, f.MaxFuncs = true, true, true, max(f.MaxFuncs, 2)
	}
	f.MaxTop = min(f.MaxTop, 5)
	src, _ := GenProgram(r.Sub(), f, imps, "_"+strings.Map(func(c rune) rune {
		if c >= 'a' && c <= 'z' || c >= '0' && c <= '9' {
			return c
		}
		return -1
	}, name)+"_")
	w.Set(name, []byte(src))
}

func (w *GenWorld) Get(rel string) []byte {
	for _, f := range w.Files {
		if f.Rel == rel {
			return f.Data
		}
	}
	return nil
}

func (w *GenWorld) Set(rel string, data []byte) {
	for i := range w.Files {
		if w.Files[i].Rel == rel {
			w.Files[i].Data = data
			return
		}
	}
	w.Files = append(w.Files, WFile{rel, data})
	sort.Slice(w.Files, func(i, j int) bool { return w.Files[i].Rel < w.Files[j].Rel })
}

func relImport(from, to string) string {
	// path of `to` relative to the directory of `from` (both mount-relative)
	fd := path.Dir(from)
	if fd == "." {
		return to
	}
	ups := strings.Count(fd, "/") + 1
	if strings.HasPrefix(to, fd+"/") {
		return to[len(fd)+1:]
	}
	return strings.Repeat("../", ups) + to
}

type WorldOpts struct {
	MaxFiles   int  // local files besides main
	StdPct     int  // chance (percent) that some file imports a std library
	AllowStd   bool // whether std imports are allowed at all
	Hostile    bool // allow hostile shapes
	Decoys     int
	Corpus     []string // harvested programs that may serve as main files
	CorpusPct  int
	SmallFeats bool
	AbsImports bool // imports may be spelled as absolute paths (C13 only: the content then names its location)
}

// NewWorld generates files bottom-up so that importers know what they may call.
func NewWorld(r *Rng, o WorldOpts) *GenWorld {
	w := &GenWorld{AbsOK: o.AbsImports}
	k := r.Intn(o.MaxFiles + 1)
	names := []string{"main.tsh"}
	dirs := []string{"", "", "lib/", "pkg/util/", "a b/"}
	long := func(n int) string { return strings.Repeat("long_file_name_", n/15+1)[:n] }
	for i := 1; i <= k; i++ {
		base := fmt.Sprintf("h%d", i)
		if r.Chance(8) {
			// file and directory names of unusual length (a component may have up to 255 bytes)
			base += "_" + long(Pick(r, []int{40, 64, 100, 180, 240}))
		}
		names = append(names, fmt.Sprintf("%s%s.tsh", r.Pick(dirs[:3+r.Intn(3)]), base))
	}
	if r.Chance(18) {
		names[0] = r.Pick([]string{"app/main.tsh", "prog.tsh", "my prog.tsh", "a.b.tsh", "noext",
			long(70) + ".tsh", long(251) + ".tsh", "d/" + long(120) + "/m.tsh", "a/b/c/d/e/f/g/h/i/j/k/l/m/n/o/p/main.tsh"})
	}
	w.Main = names[0]
	w.Pub, w.Edges, w.StdOf = map[string][]FuncSig{}, map[string][]string{}, map[string][]string{}
	// files that are not sources but live next to them (helper scripts, data): programs may name them
	helpers := []string{}
	if r.Chance(45) {
		for n := r.Range(1, 3); n > 0; n-- {
			helpers = append(helpers, r.Pick([]string{"tools/greet.sh", "bin/run", "data/in.txt", "a b/x.sh", "run.sh", "lib/helper.sh", "out.txt"}))
		}
	}
	worldPaths := func(from string) []string {
		out := []string{}
		for _, t := range append(append([]string{}, names...), helpers...) {
			ip := relImport(from, t)
			out = append(out, ip, "./"+ip)
			if d := path.Dir(ip); d != "." {
				out = append(out, d, d+"/")
			}
		}
		return out
	}
	// edges: file i imports a subset of files j > i
	edges := make([][]int, len(names))
	shape := "single"
	if k > 0 {
		switch r.Intn(5) {
		case 0: // chain
			shape = "chain"
			for i := 0; i < k; i++ {
				edges[i] = []int{i + 1}
			}
		case 1: // star
			shape = "star"
			for j := 1; j <= k; j++ {
				edges[0] = append(edges[0], j)
			}
		case 2: // diamond-ish: everyone imports the last
			shape = "diamond"
			for i := 0; i < k; i++ {
				if i > 0 {
					edges[0] = append(edges[0], i)
				}
				edges[i] = append(edges[i], k)
			}
			edges[0] = dedupInts(edges[0])
		default: // random DAG
			shape = "dag"
			for i := 0; i < k; i++ {
				for j := i + 1; j <= k; j++ {
					if r.Chance(45) {
						edges[i] = append(edges[i], j)
					}
				}
			}
			if len(edges[0]) == 0 {
				edges[0] = []int{1 + r.Intn(k)}
			}
		}
	}
	twoAlias := k > 0 && r.Chance(15)
	if twoAlias {
		shape += "+twoalias"
	}
	pub := make([][]FuncSig, len(names))
	stdOf := map[int][]string{}
	sharedGlobals := r.Chance(8) // (one world in twelve: its main program is usually rejected)
	w.NamePool = r.Chance(12)
	for i := len(names) - 1; i >= 0; i-- {
		imps := []ModuleRef{}
		for n, j := range edges[i] {
			alias := fmt.Sprintf("m%d", j)
			ip := relImport(names[i], names[j])
			if o.AbsImports && r.Chance(6) {
				ip = absSpelling(r, names[j])
			} else if r.Chance(12) {
				// other spellings of the same import path
				switch r.Intn(3) {
				case 0:
					ip = "./" + ip
				case 1:
					ip = "./././" + ip
				default:
					if d := path.Dir(ip); d != "." && !strings.HasPrefix(ip, "..") {
						ip = d + "/../" + ip
					} else {
						ip = "./" + ip
					}
				}
			}
			imps = append(imps, ModuleRef{Alias: alias, Name: alias, Path: ip, Funcs: pub[j]})
			if twoAlias && n == 0 {
				imps = append(imps, ModuleRef{Alias: alias + "b", Name: alias + "b", Path: relImport(names[i], names[j]), Funcs: pub[j]})
			}
		}
		if o.AllowStd && r.Chance(o.StdPct) {
			switch r.Intn(5) {
			case 0:
				imps = append(imps, ModuleRef{Alias: "", Name: "os", Path: "os", Funcs: StdOs})
				stdOf[i] = append(stdOf[i], "os")
			case 1, 4:
				imps = append(imps, ModuleRef{Alias: "str", Name: "str", Path: "strings", Funcs: StdStrings})
				stdOf[i] = append(stdOf[i], "strings")
			default:
				imps = append(imps, ModuleRef{Alias: "", Name: "strings", Path: "strings", Funcs: StdStrings})
				stdOf[i] = append(stdOf[i], "strings")
			}
		}
		f := RandomFeat(r)
		if o.SmallFeats {
			f.MaxTop = min(f.MaxTop, 4)
			f.MaxFuncs = min(f.MaxFuncs, 2)
			f.MaxBody = min(f.MaxBody, 2)
		}
		f.PublicFuncs = i > 0
		f.SharedGlobals = sharedGlobals
		if w.NamePool {
			f.NamePool, f.Funcs, f.AppCalls, f.MaxFuncs = true, true, true, max(f.MaxFuncs, 2)
		}
		f.LibScoped = i > 0 && r.Chance(85)
		if r.Chance(50) {
			f.WorldPaths = worldPaths(names[i])
		}
		if i > 0 {
			f.Funcs = true
			f.MaxFuncs = max(f.MaxFuncs, 1)
			f.MaxTop = min(f.MaxTop, 3)
		}
		var src string
		if i == 0 && len(imps) == 0 && len(o.Corpus) > 0 && r.Chance(o.CorpusPct) {
			src = o.Corpus[r.Intn(len(o.Corpus))]
			shape = "corpus"
		} else {
			src, pub[i] = GenProgram(r.Sub(), f, imps, fmt.Sprintf("_%d_", i))
			if r.Chance(3) {
				src = strings.ReplaceAll(src, "\n", "\r\n") // a source file with CR LF line ends
			}
		}
		w.Files = append(w.Files, WFile{names[i], []byte(src)})
		w.Pub[names[i]] = pub[i]
		for _, j := range edges[i] {
			w.Edges[names[i]] = append(w.Edges[names[i]], names[j])
		}
		w.StdOf[names[i]] = stdOf[i]
	}
	// closure
	seen := map[int]bool{}
	var walk func(i int)
	walk = func(i int) {
		if seen[i] {
			return
		}
		seen[i] = true
		for _, j := range edges[i] {
			walk(j)
		}
	}
	walk(0)
	stdSet := map[string]bool{}
	for i := range names {
		if seen[i] {
			w.Closure = append(w.Closure, names[i])
			for _, s := range stdOf[i] {
				stdSet[s] = true
			}
		}
	}
	for _, s := range []string{"os", "strings"} {
		if stdSet[s] {
			w.UsesStd = append(w.UsesStd, s)
		}
	}
	for _, h := range helpers {
		if w.Get(h) == nil {
			w.Files = append(w.Files, WFile{h, []byte("#!/bin/sh\necho helper\n")})
			w.Decoys = append(w.Decoys, h)
		}
	}
	for d := 0; d < o.Decoys; d++ {
		name := fmt.Sprintf("%sdecoy%d.tsh", r.Pick(dirs[:3]), d)
		if r.Chance(35) {
			// confusable names: a stale copy next to a real file, a name close to a std library
			name = r.Pick([]string{"h1.tsh.bak", "h1.tsh~", "H1.TSH", "main.tsh.orig", "string.tsh", "std/strings.tsh", "os.tsh.txt", ".h1.tsh.swp",
				"strings.tsh", "os.tsh", "strings.tsh", "lib/strings.tsh", "h1", "main"})
			if w.Get(name) != nil {
				name = fmt.Sprintf("decoy%d.tsh", d)
			}
		}
		src, _ := GenProgram(r.Sub(), RandomFeat(r), nil, fmt.Sprintf("_d%d_", d))
		w.Files = append(w.Files, WFile{name, []byte(src)})
		w.Decoys = append(w.Decoys, name)
	}
	// shadowing candidates: next to a file that imports a std library, a local file whose
	// name is that of the library (with and without extension). The unchanged resolution
	// rule decides which one is meant; no environment change may flip that decision.
	// A file named exactly like the library (no extension) IS what the rule finds first: it
	// is a dependency of the importing file, not a decoy.
	for i := range names {
		for _, lib := range stdOf[i] {
			if r.Chance(45) {
				d := path.Dir(names[i])
				ext := r.Pick([]string{".tsh", ".tsh", "", ".TSH"})
				n := lib + ext
				if d != "." {
					n = d + "/" + n
				}
				if w.Get(n) == nil {
					w.Files = append(w.Files, WFile{n, []byte("func Contains(a string, b string) bool {\n\treturn true\n}\nfunc Shell() string {\n\treturn \"local\"\n}\n")})
					if ext == "" {
						w.Edges[names[i]] = append(w.Edges[names[i]], n)
						if seen[i] {
							w.Closure = append(w.Closure, n)
						}
					} else {
						w.Decoys = append(w.Decoys, n)
					}
				}
			}
		}
	}
	sort.Slice(w.Files, func(i, j int) bool { return w.Files[i].Rel < w.Files[j].Rel })
	sort.Strings(w.Closure)
	w.Shape = shape
	if o.Hostile && r.Chance(35) {
		makeHostile(r, w)
	}
	return w
}

func dedupInts(xs []int) []int {
	sort.Ints(xs)
	out := xs[:0]
	for i, x := range xs {
		if i == 0 || x != xs[i-1] {
			out = append(out, x)
		}
	}
	return out
}

// makeHostile rewrites the import header of one or two files to create shapes
// the parser must reject (or at least survive).
func makeHostile(r *Rng, w *GenWorld) {
	w.Hostile = true
	body := func(rel string) string {
		// strip an existing import header
		s := string(w.Get(rel))
		if i := strings.Index(s, "import ("); i >= 0 {
			if j := strings.Index(s[i:], "\n)"); j >= 0 {
				return s[:i] + s[i+j+2:]
			}
		}
		lines := strings.Split(s, "\n")
		out := []string{}
		for _, l := range lines {
			if !strings.HasPrefix(strings.TrimSpace(l), "import ") {
				out = append(out, l)
			}
		}
		return strings.Join(out, "\n")
	}
	main := w.Main
	other := "h1.tsh"
	for _, f := range w.Files {
		if f.Rel != main && !strings.Contains(f.Rel, "decoy") {
			other = f.Rel
			break
		}
	}
	// every edge of a cycle may be spelled in any way the resolution rules accept
	spelled := ""
	relImport := func(from, to string) string {
		ip := relImport(from, to)
		switch {
		case w.AbsOK && r.Chance(25):
			spelled = "+abs"
			return absSpelling(r, to)
		case r.Chance(20):
			spelled = "+dots"
			return r.Pick([]string{"./", "./././", "zz/../"}) + ip
		}
		return ip
	}
	defer func() { w.Shape += spelled }()
	switch r.Intn(15) {
	case 0: // self import
		w.Shape = "hostile:self"
		w.Set(main, []byte(fmt.Sprintf("import me %q\n", relImport(main, main))+body(main)))
	case 1: // 2-cycle
		w.Shape = "hostile:cycle2"
		w.Set(other, []byte(fmt.Sprintf("import back %q\n", relImport(other, main))+body(other)))
		w.Set(main, []byte(fmt.Sprintf("import fwd %q\n", relImport(main, other))+body(main)))
	case 2: // 3-cycle
		w.Shape = "hostile:cycle3"
		third := "cyc3.tsh"
		w.Set(third, []byte(fmt.Sprintf("import c %q\nfunc T() {\n}\n", relImport(third, main))))
		w.Set(other, []byte(fmt.Sprintf("import (\n\tb %q\n)\n", relImport(other, third))+body(other)))
		w.Set(main, []byte(fmt.Sprintf("import (\n\ta %q\n)\n", relImport(main, other))+body(main)))
	case 10: // cycle among library modules: resolved through the std directory, by bare name
		w.Shape = "hostile:std-cycle"
		ext := r.Pick([]string{"", "", ".tsh"})
		w.StdFiles = append(w.StdFiles, WFile{"cyca.tsh", []byte(fmt.Sprintf("import \"cycb%s\"\nfunc A() {\n}\n", ext))}, WFile{"cycb.tsh", []byte(fmt.Sprintf("import \"cyca%s\"\nfunc B() {\n}\n", ext))})
		w.Set(main, []byte(fmt.Sprintf("import \"cyca%s\"\n", ext)+body(main)))
	case 11: // a library module importing itself
		w.Shape = "hostile:std-self"
		w.StdFiles = append(w.StdFiles, WFile{"selfish.tsh", []byte(r.Pick([]string{"import \"selfish\"\n", "import s \"selfish.tsh\"\n", "import s \"./selfish.tsh\"\n"}) + "func S() {\n}\n")})
		w.Set(main, []byte("import \"selfish\"\n"+body(main)))
	case 12: // a library module importing the program that imports it
		w.Shape = "hostile:std-back"
		w.StdFiles = append(w.StdFiles, WFile{"backref.tsh", []byte(fmt.Sprintf("import m %q\nfunc B() {\n}\n", MountMark+"/"+main))})
		w.Set(main, []byte("import \"backref\"\n"+body(main)))
	case 3: // missing target
		w.Shape = "hostile:missing"
		w.Set(main, []byte("import gone \"nothere.tsh\"\n"+body(main)))
	case 4: // duplicate alias
		w.Shape = "hostile:dupalias"
		w.Set(other, []byte("func X() {\n}\n"))
		w.Set(main, []byte(fmt.Sprintf("import (\n\td %q\n\td %q\n)\n", relImport(main, other), relImport(main, other))+body(main)))
	case 5: // alias-less local import
		w.Shape = "hostile:noalias"
		w.Set(other, []byte("func X() {\n}\n"))
		w.Set(main, []byte(fmt.Sprintf("import %q\n", relImport(main, other))+body(main)))
	case 6: // import of a directory
		w.Shape = "hostile:importdir"
		w.Set("adir/inner.tsh", []byte("func X() {\n}\n"))
		w.Set(main, []byte("import d \"adir\"\n"+body(main)))
	case 7: // cycle among imported files only, main imports one of them
		w.Shape = "hostile:cycle-below"
		w.Set("ca.tsh", []byte(fmt.Sprintf("import b %q\nfunc A() {\n}\n", relImport("ca.tsh", "cb.tsh"))))
		w.Set("cb.tsh", []byte(fmt.Sprintf("import a %q\nfunc B() {\n}\n", relImport("cb.tsh", "ca.tsh"))))
		w.Set(main, []byte(fmt.Sprintf("import (\n\tca %q\n)\n", relImport(main, "ca.tsh"))+body(main)))
	case 13, 14: // a path the kernel refuses with something other than "no such file": through a regular file, too long, with a NUL byte
		w.Shape = "hostile:oddpath"
		w.Set(other, []byte("func X() {\n}\n"))
		rel := relImport(main, other)
		p := r.Pick([]string{rel + "/x", rel + "/", rel + "/.", rel + "/../" + rel, strings.Repeat("n", 300) + ".tsh", "d/" + strings.Repeat("n", 256), "a\x00b.tsh", MountMark + "/" + main + "/", MountMark + "/" + other + "/x.tsh",
			strings.Repeat("deep/", 900) + "x.tsh", ".", "..", "/", "//", "./", "~/x.tsh", "C:\\x.tsh"})
		alias := r.Pick([]string{"o ", "o ", ""})
		w.Set(main, []byte(fmt.Sprintf("import %s%q\n", alias, p)+body(main)))
	case 8: // import header garbage
		w.Shape = "hostile:header"
		w.Set(main, []byte(r.Pick([]string{"import (\n", "import (\n\tx\n)\n", "import\n", "import ( x \"h1.tsh\" )\n", "import (\n\t\"\"\n)\n", "import \"\"\n", "import x \"/\"\n", "import x \"..\"\n"})+body(main)))
	default: // unknown std library
		w.Shape = "hostile:nostd"
		w.Set(main, []byte("import \"nosuchlib\"\n"+body(main)))
	}
}

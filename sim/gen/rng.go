// Package gen holds the seeded workload generators. Nothing here reads a
// clock, the environment, directory order or a map in iteration order.
package gen

// Rng is a splitmix64 stream: the only source of choice in the machinery.
type Rng struct{ s uint64 }

func NewRng(seed uint64) *Rng { return &Rng{s: seed*0x9E3779B97F4A7C15 + 0x1234567} }

func (r *Rng) U64() uint64 {
	r.s += 0x9E3779B97F4A7C15
	z := r.s
	z = (z ^ (z >> 30)) * 0xBF58476D1CE4E5B9
	z = (z ^ (z >> 27)) * 0x94D049BB133111EB
	return z ^ (z >> 31)
}

// Sub derives an independent stream.
func (r *Rng) Sub() *Rng { return &Rng{s: r.U64()} }

func (r *Rng) Intn(n int) int {
	if n <= 0 {
		return 0
	}
	return int(r.U64() % uint64(n))
}

func (r *Rng) Range(lo, hi int) int { return lo + r.Intn(hi-lo+1) }

func (r *Rng) Chance(pct int) bool { return r.Intn(100) < pct }

func (r *Rng) Pick(xs []string) string { return xs[r.Intn(len(xs))] }

func Pick[T any](r *Rng, xs []T) T { return xs[r.Intn(len(xs))] }

// Pick2 picks one of the ints.
func (r *Rng) Pick2(xs []int) int { return xs[r.Intn(len(xs))] }

package gen

import (
	"fmt"
	"strings"
)

// Stress programs: valid (or near-valid) programs in which ONE construct is
// repeated or nested N times. They look for super-linear behaviour (time or
// recursion depth that explodes with the size of one expression or block),
// which small generated programs cannot show.
func StressProgram(r *Rng) (string, string) {
	n := Pick(r, []int{8, 16, 24, 32, 48, 64, 96, 128})
	rep := func(s string, k int) string { return strings.Repeat(s, k) }
	join := func(item string, sep string, k int) string {
		xs := make([]string, k)
		for i := range xs {
			xs[i] = item
		}
		return strings.Join(xs, sep)
	}
	kinds := []func() (string, string){
		func() (string, string) {
			op := r.Pick([]string{"+", "-", "*", "/", "%"})
			return "x := " + join("1", " "+op+" ", n) + "\nprint(x)\n", "int-chain" + op
		},
		func() (string, string) {
			return "x := " + join(`"a"`, " + ", n) + "\nprint(x)\n", "string-chain"
		},
		func() (string, string) {
			return "x := " + join("1", " + ", n) + ` + "a"` + "\n", "int-chain-type-error"
		},
		func() (string, string) {
			op := r.Pick([]string{"&&", "||"})
			return "b := " + join("true", " "+op+" ", n) + "\nprint(b)\n", "logic-chain" + op
		},
		func() (string, string) {
			return "b := " + join("1 < 2", " && ", n) + "\nprint(b)\n", "comparison-chain"
		},
		func() (string, string) {
			return "b := 1 " + join("< 2", " ", n) + "\n", "comparison-misuse-chain"
		},
		func() (string, string) {
			return "x := " + rep("(", n) + "1" + rep(")", n) + "\nprint(x)\n", "paren-nesting"
		},
		func() (string, string) {
			return "x := " + rep("(1 + ", n) + "1" + rep(")", n) + "\nprint(x)\n", "right-nested-chain"
		},
		func() (string, string) {
			return "b := " + rep("!", n) + "true\n", "negation-chain"
		},
		func() (string, string) {
			return "b := " + rep("!(", n) + "true" + rep(")", n) + "\nprint(b)\n", "negation-nesting"
		},
		func() (string, string) {
			m := min(n, 40)
			var sb strings.Builder
			for i := 0; i < m; i++ {
				sb.WriteString(rep("\t", i) + "if true {\n")
			}
			sb.WriteString(rep("\t", m) + "print(1)\n")
			for i := m - 1; i >= 0; i-- {
				sb.WriteString(rep("\t", i) + "}\n")
			}
			return sb.String(), "if-nesting"
		},
		func() (string, string) {
			m := min(n, 40)
			var sb strings.Builder
			for i := 0; i < m; i++ {
				fmt.Fprintf(&sb, "for i%d := 0; i%d < 1; i%d++ {\n", i, i, i)
			}
			sb.WriteString("print(1)\n" + rep("}\n", m))
			return sb.String(), "for-nesting"
		},
		func() (string, string) {
			m := min(n, 40)
			var sb strings.Builder
			for i := 0; i < m; i++ {
				sb.WriteString("switch 1 {\ncase 1:\n")
			}
			sb.WriteString("print(1)\n" + rep("}\n", m))
			return sb.String(), "switch-nesting"
		},
		func() (string, string) {
			var sb strings.Builder
			sb.WriteString("switch 1 {\n")
			for i := 0; i < n; i++ {
				fmt.Fprintf(&sb, "case %d:\n\tprint(%d)\n", i, i)
			}
			sb.WriteString("}\n")
			return sb.String(), "many-cases"
		},
		func() (string, string) {
			var sb strings.Builder
			sb.WriteString("x := 0\nif x == 1 {\n")
			for i := 0; i < n; i++ {
				fmt.Fprintf(&sb, "} else if x == %d {\n\tprint(%d)\n", i+2, i)
			}
			sb.WriteString("}\n")
			return sb.String(), "else-if-chain"
		},
		func() (string, string) {
			return rep("print(1)\n", n*8), "many-statements"
		},
		func() (string, string) {
			var sb strings.Builder
			for i := 0; i < n*2; i++ {
				fmt.Fprintf(&sb, "v%d := %d\n", i, i)
			}
			return sb.String(), "many-variables"
		},
		func() (string, string) {
			var sb strings.Builder
			for i := 0; i < n; i++ {
				if i == 0 {
					sb.WriteString("func f0() int {\n\treturn 1\n}\n")
				} else {
					fmt.Fprintf(&sb, "func f%d() int {\n\treturn f%d() + 1\n}\n", i, i-1)
				}
			}
			fmt.Fprintf(&sb, "print(f%d())\n", n-1)
			return sb.String(), "call-graph-chain"
		},
		func() (string, string) {
			var sb strings.Builder
			for i := 0; i < n; i++ {
				fmt.Fprintf(&sb, "func f%d() int {\n", i)
				for j := max(0, i-6); j < i; j++ {
					fmt.Fprintf(&sb, "\tx%d := f%d()\n", j, j)
				}
				sb.WriteString("\treturn 1\n}\n")
			}
			fmt.Fprintf(&sb, "print(f%d())\n", n-1)
			return sb.String(), "call-graph-dense"
		},
		func() (string, string) {
			return "func id(a int) int {\n\treturn a\n}\nx := " + rep("id(", n) + "1" + rep(")", n) + "\n", "call-nesting"
		},
		func() (string, string) {
			return "print(" + join("1", ", ", n*4) + ")\n", "many-arguments"
		},
		func() (string, string) {
			return "s := []int{" + join("1", ", ", n*4) + "}\nprint(len(s))\n", "big-slice-literal"
		},
		func() (string, string) {
			return `s := "` + rep("abcdefgh", n*6) + "\"\nprint(s)\n", "long-string"
		},
		func() (string, string) {
			return `s := "` + rep(`\n`, n*8) + "\"\nprint(s)\n", "many-escapes"
		},
		func() (string, string) {
			// an if nested through its ELSE branches, with a connective as condition
			cond := Pick(r, []string{"x > 0 && x < 9", "x > 0 || x < 9", "x > 0 && x < 9 && x != 5", "!(x > 0) || x == 1", "x == 1"})
			var sb strings.Builder
			sb.WriteString("x := 3\n")
			for i := 0; i < n; i++ {
				sb.WriteString("if " + cond + " {\nprint(" + fmt.Sprint(i) + ")\n} else {\n")
			}
			sb.WriteString("print(\"innermost\")\n" + rep("}\n", n))
			return sb.String(), "else-nesting"
		},
		func() (string, string) {
			// chained ranges and mixed subscripts on a string, a slice and a call result
			sub := Pick(r, []string{"[1:]", "[:9]", "[0:9]", "[1:][0]", "[0:]"})
			head := Pick(r, []string{"s := \"" + rep("abcdefgh", 40) + "\"\nprint(s", "xs := []int{1, 2, 3}\nprint(xs", "func names() []string {\n\treturn []string{\"a\"}\n}\nprint(names()", "print(\"" + rep("abcdefgh", 40) + "\""})
			return head + rep(sub, n) + ")\n", "range-chain"
		},
		func() (string, string) {
			return "s := \"abc\"\nx := s" + rep("[0]", n) + "\n", "subscript-chain"
		},
		func() (string, string) {
			return "s := \"abc\"\nx := s[" + rep("len(s[", min(n, 30)) + "0" + rep("])", min(n, 30)) + "]\n", "subscript-nesting"
		},
		func() (string, string) {
			return join("@echo(\"a\")", " | ", n) + "\n", "pipe-chain"
		},
		func() (string, string) {
			return "/*" + rep(" x */ /* ", n*8) + "*/\nprint(1)\n", "many-comments"
		},
		func() (string, string) {
			return rep("// c\n", n*8) + "print(1)\n", "many-line-comments"
		},
		func() (string, string) {
			return rep("\n", n*16) + "print(1)" + rep(" ", n*16) + "\n", "whitespace"
		},
		func() (string, string) {
			return "x" + rep(", x", n) + " := 1\n", "many-names"
		},
		func() (string, string) {
			return "var " + rep("[]", n) + "int x\n", "type-garbage"
		},
		func() (string, string) {
			return "x := " + rep("[]int{", min(n, 40)) + rep("}", min(n, 40)) + "\n", "slice-literal-nesting"
		},
		func() (string, string) {
			return "func f(" + join("a int", ", ", n) + ") {\n}\n", "many-params-dup"
		},
		func() (string, string) {
			ps := make([]string, n)
			as := make([]string, n)
			for i := range ps {
				ps[i] = fmt.Sprintf("a%d int", i)
				as[i] = "1"
			}
			return "func f(" + strings.Join(ps, ", ") + ") {\n}\nf(" + strings.Join(as, ", ") + ")\n", "many-params"
		},
		func() (string, string) {
			rs := make([]string, min(n, 60))
			vs := make([]string, len(rs))
			ns := make([]string, len(rs))
			for i := range rs {
				rs[i], vs[i], ns[i] = "int", "1", fmt.Sprintf("r%d", i)
			}
			return "func f() (" + strings.Join(rs, ", ") + ") {\n\treturn " + strings.Join(vs, ", ") + "\n}\n" + strings.Join(ns, ", ") + " := f()\n", "many-returns"
		},
	}
	src, kind := kinds[r.Intn(len(kinds))]()
	return src, fmt.Sprintf("stress:%s/%d", kind, n)
}

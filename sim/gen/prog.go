package gen

import (
	"fmt"
	"strings"
)

// Typed, grammar-based generator of TypeShell programs. Programs are meant to
// be *mostly* accepted by the transpiler; no oracle depends on acceptance.

type FuncSig struct {
	Name   string
	Params []string // type names: int bool string []int []bool []string
	Rets   []string
}

// ModuleRef is an import available to the program being generated.
type ModuleRef struct {
	Alias string // "" for an alias-less (std) import
	Path  string // as written in the import statement
	Funcs []FuncSig
	Name  string // name used to qualify calls (alias, or base name for std)
}

type Feat struct {
	Funcs, Slices, Strings, Switch, ForRange, For3, FileOps, AppCalls, Input, MultiRet, Panic, Comments bool
	Errors, Blanks                                                                                   bool // the error type with nil; the blank identifier where the parser accepts it
	LibScoped                                                                                        bool // imported files: nested scopes (function bodies, blocks) do not refer to the file's globals (the pinned parser does not find them there)
	MaxTop, MaxBody, MaxDepth, MaxExpr, MaxFuncs int
	PublicFuncs                              bool // generate exported (capitalised) functions and globals
	AdvNames                                 bool // identifiers from the adversarial pool (collision families, case twins, helper look-alikes, shell words)
	Tiny                                     bool // one or two statements only
	NoStrLit                                 bool // sparse programs: string values only from variables, itoa, defaults — no string literal anywhere
	SharedGlobals                            bool // library files define public globals from a small shared pool (Name, Version, Debug): several imports then export the same name
	NamePool                                 bool // draw function names from a small shared pool (different programs then define the same names in different orders)
	WorldPaths                               []string // relative paths (as seen from this program's file) of files and directories that exist in the world: string literals and program names may coincide with them
}

// RandomFeat draws a feature subset and size knobs ("swarm" style).
func RandomFeat(r *Rng) Feat {
	f := Feat{
		Funcs: r.Chance(75), Slices: r.Chance(55), Strings: r.Chance(75), Switch: r.Chance(40),
		ForRange: r.Chance(40), For3: r.Chance(60), FileOps: r.Chance(30), AppCalls: r.Chance(25),
		Input: r.Chance(12), MultiRet: r.Chance(40), Panic: r.Chance(20), Comments: r.Chance(30), NoStrLit: r.Chance(16), AdvNames: r.Chance(30), Errors: r.Chance(35), Blanks: r.Chance(35), NamePool: r.Chance(20),
		MaxTop: r.Range(1, 8), MaxBody: r.Range(1, 4), MaxDepth: r.Range(1, 3), MaxExpr: r.Range(1, 3), MaxFuncs: r.Range(0, 4),
	}
	if r.Chance(20) {
		// tiny programs: one or two statements, so that a construct appears alone
		// (a helper or prologue that only ONE statement kind triggers becomes visible)
		f.MaxTop, f.MaxFuncs, f.MaxBody, f.Tiny = r.Range(1, 2), 0, 1, true
	}
	return f
}

var StdStrings = []FuncSig{
	{"Index", []string{"string", "string"}, []string{"int"}},
	{"Contains", []string{"string", "string"}, []string{"bool"}},
	{"Join", []string{"[]string", "string"}, []string{"string"}},
	{"HasPrefix", []string{"string", "string"}, []string{"bool"}},
	{"HasSuffix", []string{"string", "string"}, []string{"bool"}},
	{"Count", []string{"string", "string"}, []string{"int"}},
	{"Split", []string{"string", "string"}, []string{"[]string"}},
	{"Repeat", []string{"string", "int"}, []string{"string"}},
	{"Replace", []string{"string", "string", "string", "int"}, []string{"string"}},
	{"ReplaceAll", []string{"string", "string", "string"}, []string{"string"}},
	{"CutPrefix", []string{"string", "string"}, []string{"string", "bool"}},
	{"CutSuffix", []string{"string", "string"}, []string{"string", "bool"}},
	{"Cut", []string{"string", "string"}, []string{"string", "string", "bool"}},
	{"TrimPrefix", []string{"string", "string"}, []string{"string"}},
	{"TrimSuffix", []string{"string", "string"}, []string{"string"}},
	{"TrimLeft", []string{"string", "string"}, []string{"string"}},
	{"TrimRight", []string{"string", "string"}, []string{"string"}},
	{"Trim", []string{"string", "string"}, []string{"string"}},
	{"TrimSpace", []string{"string"}, []string{"string"}},
}

var StdOs = []FuncSig{{"Shell", nil, []string{"string"}}}

type variable struct {
	name string
	typ  string
}

type pgen struct {
	r      *Rng
	f      Feat
	sb     strings.Builder
	n      int
	tag    string
	funcs  []FuncSig // callable from here (qualified names for imports)
	indent int
	swDepth int // nesting depth of switch statements at the point of emission
	used    map[string]bool
	usedList []string
	twins    []string // names of functions that have a case twin: both get called at the end
	theme   []string
	curRets []string // return types of the function being generated (nil at top level)
	inFn    bool
	blk     bool // this program has block comments between its statements (one program in fourteen: the pinned lexer's block comment runs to the LAST terminator of the file, so such programs lose most of their code)
}

// AdvNames are identifiers chosen to provoke name handling in the emitters:
// families that collide once a prefix and a name are glued together
// (log + file_path / log_file + path), names that differ only in case, names
// that look like the emitters' own helper variables, labels and counters, and
// words that mean something to bash or cmd.exe. None is a TypeShell keyword.
var AdvNames = []string{
	"log", "log_file", "file_path", "path", "file", "log_file_path", "a_b", "a", "b_c", "a_b_c", "b", "c", "x_", "_x", "x__y", "y", "x",
	"index", "iNDEX", "inDex", "value", "vALUE", "valuE", "data", "dATA",
	"_h0", "_h1", "_h2", "_rv0", "_rv1", "_dvc", "_ret", "_i", "_l", "_c", "_n", "_v", "_fv0", "_sah", "_sch", "_ssh", "_dv1", "f1_x", "f2__h0", "f1__h0", "_e0", "_f0", "_i0", "_ach", "_frh",
	"done", "fi", "then", "esac", "elif", "do", "in", "select", "until", "while", "function", "coproc", "echo", "test", "exit", "local", "eval", "set", "shift", "unset", "wait", "cat", "printf",
	"pATH", "iFS", "hOME", "pWD", "rANDOM", "errorlevel", "cd", "date", "time", "random", "cmdcmdline", "goto", "call", "rem", "nul", "con", "lF",
	"x1", "x01", "a1b2", "o0", "l1",
}

var tshKeywords = map[string]bool{"import": true, "var": true, "func": true, "return": true, "if": true, "else": true, "switch": true, "case": true, "default": true,
	"for": true, "range": true, "break": true, "continue": true, "nil": true, "len": true, "print": true, "input": true, "copy": true, "itoa": true, "exists": true,
	"read": true, "write": true, "panic": true, "bool": true, "int": true, "string": true, "error": true, "true": true, "false": true}

// DeriveName makes a near-duplicate of one of the names already in use: the
// same name with the case of one inner letter flipped, or two names glued
// together with an underscore (so that prefix+name concatenations of different
// pairs coincide: log + file_path / log_file + path), or one name split at an
// underscore. Returns "" if nothing suitable comes out.
func DeriveName(r *Rng, used []string) string {
	if len(used) == 0 {
		return ""
	}
	e := used[r.Intn(len(used))]
	o := used[r.Intn(len(used))]
	var n string
	switch r.Intn(6) {
	case 0, 1: // flip the case of one inner letter
		if len(e) < 2 {
			return ""
		}
		i := 1 + r.Intn(len(e)-1)
		b := []byte(e)
		switch {
		case b[i] >= 'a' && b[i] <= 'z':
			b[i] -= 32
		case b[i] >= 'A' && b[i] <= 'Z':
			b[i] += 32
		default:
			return ""
		}
		n = string(b)
	case 2:
		n = e + "_" + o
	case 3:
		n = e + "_" + r.Pick([]string{"file", "path", "x", "1", "h0"})
	case 4: // split at an underscore
		if i := strings.Index(e, "_"); i > 0 && i < len(e)-1 {
			if r.Chance(50) {
				n = e[:i]
			} else {
				n = e[i+1:]
			}
		}
	default:
		n = e + o
	}
	if n == "" || tshKeywords[n] || strings.HasPrefix(n, "true") || strings.HasPrefix(n, "false") || len(n) > 40 {
		return ""
	}
	if c := n[0]; !(c == '_' || c >= 'a' && c <= 'z') {
		return ""
	}
	return n
}

func (g *pgen) fresh(prefix string) string {
	g.n++
	if g.f.AdvNames && prefix != "F" && prefix != "V" && g.r.Chance(70) {
		if g.used == nil {
			g.used = map[string]bool{}
		}
		if len(g.usedList) > 0 && g.r.Chance(45) {
			if n := DeriveName(g.r, g.usedList); n != "" && !g.used[n] {
				g.used[n] = true
				g.usedList = append(g.usedList, n)
				return n
			}
		}
		if g.theme == nil {
			// one theme per program, so that related names meet in the same file
			themes := [][]string{
				{"log", "log_file", "file_path", "path", "file", "log_file_path", "a_b", "a", "b_c", "a_b_c", "b", "c", "x_", "_x", "x__y", "y", "x"},
				{"index", "iNDEX", "inDex", "value", "vALUE", "valuE", "data", "dATA", "x", "xX"},
				{"_h0", "_h1", "_h2", "_rv0", "_rv1", "_dvc", "_ret", "_i", "_l", "_c", "_n", "_v", "_fv0", "_sah", "_sch", "_ssh", "_dv1", "f1_x", "f2__h0", "f1__h0", "_e0", "_f0", "_i0", "_ach", "_frh"},
				{"done", "fi", "then", "esac", "elif", "do", "in", "select", "until", "while", "function", "coproc", "echo", "test", "exit", "local", "eval", "set", "shift", "unset", "wait", "cat", "printf", "pATH", "iFS", "hOME", "pWD", "rANDOM", "errorlevel", "cd", "date", "time", "random", "goto", "call", "rem", "nul", "con", "lF"},
				AdvNames,
			}
			g.theme = themes[g.r.Intn(len(themes))]
		}
		for try := 0; try < 8; try++ {
			n := g.r.Pick(g.theme)
			if !g.used[n] {
				g.used[n] = true
				g.usedList = append(g.usedList, n)
				return n
			}
		}
	}
	return fmt.Sprintf("%s%s%d", prefix, g.tag, g.n)
}

func (g *pgen) line(format string, a ...any) {
	g.sb.WriteString(strings.Repeat("\t", g.indent))
	if g.blk && g.r.Chance(8) {
		// a block comment on a line of its own: plain, doc style, banner, several lines, commented-out
		// code that itself contains a comment opener
		g.sb.WriteString(g.r.Pick([]string{"/* note */", "/** doc */", "/*/ banner /*/", "/*////// title //////*/", "/* several\n   lines */", "/* old: x := 1 /* was 2 */", "/* a */ /* b */", "/**/", "/* /tmp/x */"}) + "\n")
		g.sb.WriteString(strings.Repeat("\t", g.indent))
	}
	fmt.Fprintf(&g.sb, format, a...)
	if g.f.Comments && g.r.Chance(10) {
		g.sb.WriteString(" // " + g.r.Pick([]string{"note", "x := 1", "TODO: check", "\"quoted\"", "{ }"}))
	}
	g.sb.WriteString("\n")
}

var words = []string{"alpha", "beta", "gamma", "Hello World", "x", "", "a b", "one,two", "42", "file.txt", "tmp/data", "done", "OK: ", "-", "A", "zz top", "Grüße", "日本語 text", "naïve café",
	// characters that mean something to one of the targets (the converters escape or keep them)
	"100%", "CPU: 50%, MEM: 70%", "%OS%", "%HOMEDRIVE%%HOMEPATH%", "a%20b%20c", "100%%", "!x!", "a^b", "a & b", "x | y", "<tag>", "$HOME", "${x}", "$(id)", "it's", "(paren)", "~", "*.txt", "a;b", "#hash", "a=b"}

func (g *pgen) strLit() string {
	if g.f.NoStrLit {
		return "itoa(" + fmt.Sprint(g.r.Intn(50)) + ")"
	}
	if len(g.f.WorldPaths) > 0 && g.r.Chance(12) {
		// a literal that happens to name something that exists next to the sources
		return `"` + g.r.Pick(g.f.WorldPaths) + `"`
	}
	w := g.r.Pick(words)
	if g.r.Chance(8) {
		return "`" + w + "`"
	}
	if g.r.Chance(6) {
		w += `\n` + g.r.Pick(words)
	}
	if g.r.Chance(4) {
		w += `\t`
	}
	if g.r.Chance(3) {
		return `"` + w + `\n"` // the value ends in a line feed
	}
	if g.r.Chance(5) {
		// every escape the lexer accepts: the emitted text then holds the control character itself
		w += g.r.Pick([]string{`\r\n`, `\r`, `\r\nnext`, `a\rb`, `\a`, `\v\f`, `\b`, `\\`, `\"q\"`, `\r\n\r\n`})
	}
	return `"` + w + `"`
}

func (g *pgen) varsOf(env []variable, typ string) []string {
	out := []string{}
	for _, v := range env {
		if v.typ == typ {
			out = append(out, v.name)
		}
	}
	return out
}

func (g *pgen) funcsRet(typ string) []FuncSig {
	out := []FuncSig{}
	for _, f := range g.funcs {
		if len(f.Rets) == 1 && f.Rets[0] == typ {
			out = append(out, f)
		}
	}
	return out
}

func (g *pgen) callExpr(f FuncSig, env []variable, d int) string {
	args := make([]string, len(f.Params))
	for i, p := range f.Params {
		args[i] = g.expr(p, env, d+1)
	}
	return fmt.Sprintf("%s(%s)", f.Name, strings.Join(args, ", "))
}

func (g *pgen) expr(typ string, env []variable, d int) string {
	r := g.r
	if d < 3 && (typ == "int" || typ == "bool" || typ == "string") && r.Chance(2) {
		// redundant parentheses, two levels deep
		return "((" + g.expr(typ, env, d+1) + "))"
	}
	leaf := d >= g.f.MaxExpr
	vs := g.varsOf(env, typ)
	switch typ {
	case "int":
		if leaf || r.Chance(35) {
			if len(vs) > 0 && r.Chance(60) {
				return r.Pick(vs)
			}
			if r.Chance(4) {
				// numbers at the edges of the widths a target might have: 8, 16, 31, 32, 53, 63 bits; time stamps
				return r.Pick([]string{"255", "256", "65535", "65536", "2147483647", "2147483648", "4294967295", "4294967296", "1758800000000",
					"9007199254740993", "9223372036854775807", "-2147483648", "-2147483649", "1000000", "0"})
			}
			return fmt.Sprint(r.Intn(20))
		}
		switch r.Intn(9) {
		case 0, 1, 2:
			return fmt.Sprintf("%s %s %s", g.expr("int", env, d+1), r.Pick([]string{"+", "-", "*", "/", "%"}), g.expr("int", env, d+1))
		case 3:
			return "(" + g.expr("int", env, d+1) + ")"
		case 4:
			if g.f.Strings {
				return "len(" + g.expr("string", env, d+1) + ")"
			}
		case 5:
			if g.f.Slices {
				if ss := g.varsOf(env, "[]int"); len(ss) > 0 {
					if r.Chance(50) {
						return "len(" + r.Pick(ss) + ")"
					}
					return fmt.Sprintf("%s[%s]", r.Pick(ss), g.expr("int", env, d+2))
				}
			}
		case 6:
			if fs := g.funcsRet("int"); len(fs) > 0 {
				return g.callExpr(Pick(r, fs), env, d)
			}
		case 7:
			if g.f.Slices {
				a, b := g.varsOf(env, "[]int"), g.varsOf(env, "[]int")
				if len(a) > 1 {
					return fmt.Sprintf("copy(%s, %s)", r.Pick(a), r.Pick(b))
				}
			}
		}
		return fmt.Sprint(r.Intn(100))
	case "bool":
		if leaf || r.Chance(25) {
			if len(vs) > 0 && r.Chance(60) {
				return r.Pick(vs)
			}
			return r.Pick([]string{"true", "false"})
		}
		switch r.Intn(9) {
		case 0, 1, 2:
			return fmt.Sprintf("%s %s %s", g.expr("int", env, d+1), r.Pick([]string{"==", "!=", "<", "<=", ">", ">="}), g.expr("int", env, d+1))
		case 3:
			if g.f.Errors && r.Chance(45) {
				return fmt.Sprintf("%s %s nil", g.expr("error", env, d+1), r.Pick([]string{"!=", "!=", "=="}))
			}
			if g.f.Strings {
				return fmt.Sprintf("%s %s %s", g.expr("string", env, d+1), r.Pick([]string{"==", "!="}), g.expr("string", env, d+1))
			}
		case 4:
			return fmt.Sprintf("%s %s %s", g.expr("bool", env, d+1), r.Pick([]string{"&&", "||"}), g.expr("bool", env, d+1))
		case 5:
			if len(vs) > 0 {
				return "!" + r.Pick(vs)
			}
			return "!(" + g.expr("bool", env, d+1) + ")"
		case 6:
			if g.f.FileOps {
				return "exists(" + g.expr("string", env, d+1) + ")"
			}
		case 7:
			if fs := g.funcsRet("bool"); len(fs) > 0 {
				return g.callExpr(Pick(r, fs), env, d)
			}
		case 8:
			return "(" + g.expr("bool", env, d+1) + ")"
		}
		return r.Pick([]string{"true", "false"})
	case "string":
		if leaf || r.Chance(35) {
			if len(vs) > 0 && r.Chance(55) {
				return r.Pick(vs)
			}
			return g.strLit()
		}
		switch r.Intn(9) {
		case 0, 1:
			return g.expr("string", env, d+1) + " + " + g.expr("string", env, d+1)
		case 2:
			return "itoa(" + g.expr("int", env, d+1) + ")"
		case 3:
			if len(vs) > 0 {
				v := r.Pick(vs)
				switch r.Intn(4) {
				case 0:
					return fmt.Sprintf("%s[%d]", v, r.Intn(3))
				case 1:
					return fmt.Sprintf("%s[%d:%d]", v, r.Intn(2), 2+r.Intn(3))
				case 2:
					return fmt.Sprintf("%s[:%d]", v, 1+r.Intn(3))
				default:
					return fmt.Sprintf("%s[%d:]", v, r.Intn(3))
				}
			}
		case 4:
			if g.f.FileOps {
				return "read(" + g.expr("string", env, d+1) + ")"
			}
		case 5:
			if g.f.Input {
				if r.Chance(50) {
					return "input()"
				}
				return "input(" + g.strLit() + ")"
			}
		case 6:
			if fs := g.funcsRet("string"); len(fs) > 0 {
				return g.callExpr(Pick(r, fs), env, d)
			}
		case 7:
			if g.f.Slices {
				if ss := g.varsOf(env, "[]string"); len(ss) > 0 {
					return fmt.Sprintf("%s[%s]", r.Pick(ss), g.expr("int", env, d+2))
				}
			}
		}
		return g.strLit()
	case "error":
		switch {
		case len(vs) > 0 && r.Chance(40):
			return r.Pick(vs)
		case r.Chance(25) && !leaf:
			if fs := g.funcsRet("error"); len(fs) > 0 {
				return g.callExpr(Pick(r, fs), env, d)
			}
		case r.Chance(40):
			return g.strLit()
		}
		return "nil"
	case "[]int", "[]bool", "[]string":
		if len(vs) > 0 && r.Chance(50) {
			return r.Pick(vs)
		}
		if fs := g.funcsRet(typ); len(fs) > 0 && r.Chance(30) {
			return g.callExpr(Pick(r, fs), env, d)
		}
		el := typ[2:]
		n := r.Intn(4)
		parts := make([]string, n)
		for i := range parts {
			parts[i] = g.expr(el, env, g.f.MaxExpr)
		}
		return fmt.Sprintf("%s{%s}", typ, strings.Join(parts, ", "))
	}
	return "0"
}

func (g *pgen) types() []string {
	ts := []string{"int", "int", "bool"}
	if g.f.Errors {
		ts = append(ts, "error")
	}
	if g.f.Strings {
		ts = append(ts, "string", "string")
	}
	if g.f.Slices {
		ts = append(ts, "[]int")
		if g.f.Strings {
			ts = append(ts, "[]string")
		}
		if g.r.Chance(30) {
			ts = append(ts, "[]bool")
		}
	}
	return ts
}

// block emits statements; returns the environment (unchanged for the caller).
func (g *pgen) block(env []variable, n int, depth int, inFunc, inLoop bool, upper bool) []variable {
	r := g.r
	for i := 0; i < n; i++ {
		k := r.Intn(22)
		switch {
		case k < 5: // definition
			t := Pick(r, g.types())
			prefix := "v"
			if upper && r.Chance(40) {
				prefix = "V"
			}
			name := g.fresh(prefix)
			switch r.Intn(4) {
			case 0:
				g.line("var %s %s", name, t)
			case 1:
				g.line("var %s %s = %s", name, t, g.expr(t, env, 0))
			case 2:
				g.line("var %s = %s", name, g.expr(t, env, 0))
			default:
				g.line("%s := %s", name, g.expr(t, env, 0))
			}
			env = append(env, variable{name, t})
		case k < 7: // assignment
			if len(env) == 0 {
				continue
			}
			v := Pick(r, env)
			switch {
			case v.typ == "int" && r.Chance(50):
				switch r.Intn(3) {
				case 0:
					g.line("%s%s", v.name, r.Pick([]string{"++", "--"}))
				case 1:
					g.line("%s %s %s", v.name, r.Pick([]string{"+=", "-=", "*=", "/=", "%="}), g.expr("int", env, 1))
				default:
					g.line("%s = %s", v.name, g.expr("int", env, 0))
				}
			case v.typ == "string" && r.Chance(30):
				g.line("%s += %s", v.name, g.expr("string", env, 1))
			case strings.HasPrefix(v.typ, "[]") && r.Chance(map[bool]int{true: 95, false: 60}[g.f.NoStrLit]):
				g.line("%s[%s] = %s", v.name, g.expr("int", env, 1), g.expr(v.typ[2:], env, 1))
			default:
				g.line("%s = %s", v.name, g.expr(v.typ, env, 0))
			}
		case k < 10: // print
			m := r.Range(1, 3)
			parts := make([]string, m)
			for j := range parts {
				parts[j] = g.expr(Pick(r, []string{"int", "bool", "string"}), env, 0)
			}
			g.line("print(%s)", strings.Join(parts, ", "))
		case k < 12: // if
			if depth >= g.f.MaxDepth {
				continue
			}
			g.line("if %s {", g.expr("bool", env, 0))
			g.indent++
			g.block(env, r.Range(0, g.f.MaxBody), depth+1, inFunc, inLoop, false)
			if g.inFn && inFunc && r.Chance(30) {
				g.earlyReturn(env)
			}
			g.indent--
			for r.Chance(30) {
				g.line("} else if %s {", g.expr("bool", env, 0))
				g.indent++
				g.block(env, r.Range(0, g.f.MaxBody), depth+1, inFunc, inLoop, false)
				g.indent--
			}
			if r.Chance(40) {
				g.line("} else {")
				g.indent++
				g.block(env, r.Range(0, g.f.MaxBody), depth+1, inFunc, inLoop, false)
				g.indent--
			}
			g.line("}")
		case k < 14: // for
			if depth >= g.f.MaxDepth {
				continue
			}
			switch {
			case g.f.For3 && r.Chance(50):
				iv := g.fresh("i")
				g.line("for %s := 0; %s < %s; %s++ {", iv, iv, g.expr("int", env, 1), iv)
				g.indent++
				g.block(append(env, variable{iv, "int"}), r.Range(0, g.f.MaxBody), depth+1, inFunc, true, false)
				g.indent--
				g.line("}")
			case g.f.ForRange && r.Chance(60):
				var it, el string
				if ss := g.varsOf(env, "[]int"); len(ss) > 0 && g.f.Slices && r.Chance(50) {
					it, el = r.Pick(ss), "int"
				} else if ss := g.varsOf(env, "[]string"); len(ss) > 0 && r.Chance(50) {
					it, el = r.Pick(ss), "string"
				} else {
					it, el = g.expr("string", env, 1), "string"
				}
				iv, vv := g.fresh("i"), g.fresh("e")
				e2 := append(env, variable{iv, "int"})
				if g.f.Blanks && r.Chance(45) {
					// the blank identifier, as in Go (no "_" may be live in an enclosing scope: only one per nesting)
					if r.Chance(70) {
						g.line("for _, %s := range %s {", vv, it)
						e2 = append(append([]variable{}, env...), variable{vv, el})
					} else {
						g.line("for %s, _ := range %s {", iv, it)
					}
				} else if r.Chance(70) {
					g.line("for %s, %s := range %s {", iv, vv, it)
					e2 = append(e2, variable{vv, el})
				} else {
					g.line("for %s := range %s {", iv, it)
				}
				g.indent++
				g.block(e2, r.Range(0, g.f.MaxBody), depth+1, inFunc, true, false)
				g.indent--
				g.line("}")
			default:
				cv := g.fresh("c")
				g.line("%s := 0", cv)
				env = append(env, variable{cv, "int"})
				if r.Chance(30) {
					g.line("for {")
				} else {
					g.line("for %s < %d {", cv, r.Range(1, 4))
				}
				g.indent++
				g.line("%s++", cv)
				g.block(env, r.Range(0, g.f.MaxBody), depth+1, inFunc, true, false)
				g.line("if %s > %d {", cv, r.Range(2, 5))
				g.indent++
				g.line("break")
				g.indent--
				g.line("}")
				g.indent--
				g.line("}")
			}
		case k < 15: // switch
			if !g.f.Switch || depth >= g.f.MaxDepth {
				continue
			}
			t := Pick(r, []string{"int", "bool", "string"})
			switch r.Intn(4) {
			case 0:
				g.line("switch {")
				t = "bool"
			case 1:
				if r.Chance(40) {
					g.line("switch true {")
					t = "bool"
					break
				}
				// the header is a call (evaluated once, whatever the number of cases)
				if fs := g.funcsRet(t); len(fs) > 0 {
					g.line("switch %s {", g.callExpr(Pick(r, fs), env, 1))
				} else if g.f.Strings {
					t = "int"
					g.line("switch len(%s) {", g.expr("string", env, 1))
				} else {
					g.line("switch %s {", g.expr(t, env, 1))
				}
			default:
				h := g.expr(t, env, 1)
				switch r.Intn(8) {
				case 0:
					h = "(" + h + ")"
				case 1:
					h = "((" + h + "))"
				}
				g.line("switch %s {", h)
			}
			g.swDepth++
			callCases := r.Chance(20) && len(g.funcsRet(t)) > 0 // every case value is (or contains) a call
			airy := r.Chance(20)                                 // blank and comment-only lines between the cases
			for c := r.Pick2([]int{0, 1, 2, 2, 3, 3}); c > 0; c-- {
				if airy {
					g.sb.WriteString(r.Pick([]string{"\n", "\n\n", "\t\n", "// next\n"}))
				}
				if callCases {
					ce := g.callExpr(Pick(r, g.funcsRet(t)), env, 1)
					if t == "int" && r.Chance(40) {
						ce += " + " + fmt.Sprint(r.Intn(5))
					}
					g.line("case %s:", ce)
				} else {
					g.line("case %s:", g.expr(t, env, 1))
				}
				g.indent++
				g.block(env, r.Range(0, g.f.MaxBody), depth+1, inFunc, inLoop, false)
				if r.Chance(25) {
					g.line("break") // break inside a switch is accepted by the parser
				}
				g.indent--
			}
			if r.Chance(60) {
				g.line("default:")
				g.indent++
				g.block(env, r.Range(0, g.f.MaxBody), depth+1, inFunc, inLoop, false)
				g.indent--
			}
			g.swDepth--
			g.line("}")
		case k < 16: // break/continue
			if !inLoop && g.swDepth > 0 && r.Chance(50) {
				g.line("break")
			} else if inLoop && r.Chance(50) {
				g.line("if %s {", g.expr("bool", env, 1))
				g.indent++
				g.line(r.Pick([]string{"break", "continue"}))
				g.indent--
				g.line("}")
			}
		case k < 17: // file ops
			if !g.f.FileOps {
				continue
			}
			switch r.Intn(3) {
			case 0:
				g.line("write(%s, %s)", g.expr("string", env, 1), g.expr("string", env, 1))
			case 1:
				g.line("write(%s, %s, %s)", g.expr("string", env, 1), g.expr("string", env, 1), g.expr("bool", env, 1))
			default:
				name := g.fresh("v")
				g.line("%s := read(%s)", name, g.expr("string", env, 1))
				env = append(env, variable{name, "string"})
			}
		case k < 18: // app call
			if !g.f.AppCalls {
				continue
			}
			chain := []string{}
			for c := r.Range(1, 3); c > 0; c-- {
				m := r.Intn(3)
				args := make([]string, m)
				for j := range args {
					args[j] = g.expr("string", env, 2)
				}
				name := r.Pick([]string{"ls", "grep", "echo", "sort", "cat", "`/bin/ls`", `"my prog"`, "mkdir", "deploy"})
				if g.f.NamePool {
					// (the pool other programs of this world take their function names from)
					name = r.Pick([]string{"mkdir", "ls", "cat", "sort", "grep", "deploy"})
				}
				if len(g.f.WorldPaths) > 0 && r.Chance(30) {
					name = `"` + r.Pick(g.f.WorldPaths) + `"`
				}
				chain = append(chain, fmt.Sprintf("@%s(%s)", name, strings.Join(args, ", ")))
			}
			if r.Chance(50) {
				a, b, c := g.fresh("v"), g.fresh("v"), g.fresh("v")
				g.line("%s, %s, %s := %s", a, b, c, strings.Join(chain, " | "))
				env = append(env, variable{a, "string"}, variable{b, "string"}, variable{c, "int"})
			} else {
				g.line("%s", strings.Join(chain, " | "))
			}
		case k < 20: // function call statement / multi-return assignment
			if len(g.funcs) == 0 {
				continue
			}
			f := Pick(r, g.funcs)
			switch {
			case len(f.Rets) == 0:
				g.line("%s", g.callExpr(f, env, 0))
			case len(f.Rets) == 1 && r.Chance(50):
				g.line("%s", g.callExpr(f, env, 0))
			default:
				names := make([]string, len(f.Rets))
				for j := range names {
					names[j] = g.fresh("v")
				}
				blank := -1
				if g.f.Blanks && len(names) > 1 && r.Chance(30) {
					blank = r.Intn(len(names))
					names[blank] = "_"
				}
				g.line("%s := %s", strings.Join(names, ", "), g.callExpr(f, env, 0))
				for j, nme := range names {
					if j != blank {
						env = append(env, variable{nme, f.Rets[j]})
					}
				}
			}
		case k < 21: // panic
			if g.f.Panic && depth > 0 {
				g.line("panic(%s)", g.expr("string", env, 1))
			}
		default: // multi definition
			a, b := g.fresh("v"), g.fresh("v")
			ta, tb := Pick(r, g.types()), Pick(r, g.types())
			switch r.Intn(6) {
			case 0: // several names, one type, default values
				tb = ta
				g.line("var %s, %s %s", a, b, ta)
			case 1:
				tb = ta
				g.line("var %s, %s %s = %s, %s", a, b, ta, g.expr(ta, env, 1), g.expr(ta, env, 1))
			case 2:
				g.line("var %s, %s = %s, %s", a, b, g.expr(ta, env, 1), g.expr(tb, env, 1))
			case 3:
				// Go's partial re-definition: one of the names already exists (same type), the other is new
				if vs := g.varsOf(env, ta); len(vs) > 0 {
					a = r.Pick(vs)
				}
				g.line("%s, %s := %s, %s", a, b, g.expr(ta, env, 1), g.expr(tb, env, 1))
			default:
				g.line("%s, %s := %s, %s", a, b, g.expr(ta, env, 1), g.expr(tb, env, 1))
			}
			env = append(env, variable{a, ta}, variable{b, tb})
		}
	}
	return env
}

// earlyReturn emits a return statement in the middle of a function (inside a
// nested block): the right values, a forwarded or parenthesised call with the
// same result list, or (rarely) a wrong number of values.
func (g *pgen) earlyReturn(env []variable) {
	r := g.r
	rets := g.curRets
	if len(rets) == 0 {
		if r.Chance(10) {
			g.line("return")
		}
		return
	}
	// a callable with exactly the same result list
	var same []FuncSig
	for _, f := range g.funcs {
		if len(f.Rets) == len(rets) {
			ok := true
			for i := range rets {
				if f.Rets[i] != rets[i] {
					ok = false
				}
			}
			if ok {
				same = append(same, f)
			}
		}
	}
	k := r.Intn(10)
	switch {
	case k < 2 && len(same) > 0:
		g.line("return %s", g.callExpr(Pick(r, same), env, 1))
	case k < 4 && len(same) > 0:
		g.line("return (%s)", g.callExpr(Pick(r, same), env, 1))
	case k < 5 && len(rets) == 3 && rets[0] == "string" && rets[1] == "string" && rets[2] == "int":
		g.line("return (@ls(%s))", g.expr("string", env, 2))
	case k < 6:
		g.line("return %s", g.expr(rets[0], env, 1)) // possibly too few values
	default:
		vals := make([]string, len(rets))
		for i, t := range rets {
			vals[i] = g.expr(t, env, 1)
			if r.Chance(15) {
				vals[i] = "(" + vals[i] + ")"
			}
		}
		g.line("return %s", strings.Join(vals, ", "))
	}
}

func (g *pgen) funcDef(globals []variable, public bool) FuncSig {
	r := g.r
	prefix := "f"
	if public {
		prefix = "F"
	}
	sig := FuncSig{Name: g.fresh(prefix)}
	if g.f.AdvNames && !public && g.r.Chance(12) {
		// a function named like a word that ends or opens a block in one of the targets
		n := g.r.Pick([]string{"done", "fi", "elif", "esac", "then", "do", "function", "select", "until", "while", "goto", "call", "rem", "exit"})
		taken := g.used[n]
		for _, f := range g.funcs {
			taken = taken || f.Name == n
		}
		if !taken {
			if g.used == nil {
				g.used = map[string]bool{}
			}
			g.used[n] = true
			sig.Name = n
		}
	}
	if g.f.AdvNames && !public && len(g.funcs) > 0 && r.Chance(25) {
		// a twin of a function that already exists: same name, one inner letter in the other case
		base := g.funcs[r.Intn(len(g.funcs))].Name
		if !strings.Contains(base, ".") && len(base) > 1 {
			b := []byte(base)
			i := 1 + r.Intn(len(b)-1)
			if b[i] >= 'a' && b[i] <= 'z' {
				b[i] -= 32
			} else if b[i] >= 'A' && b[i] <= 'Z' {
				b[i] += 32
			}
			twin := string(b)
			exists := false
			for _, f := range g.funcs {
				if f.Name == twin {
					exists = true
				}
			}
			if !exists && twin != base && !tshKeywords[twin] {
				sig.Name = twin
				g.twins = append(g.twins, base, twin)
			}
		}
	}
	if g.f.NamePool && !public {
		// (half of the pool are names of programs that app calls run: a function of one program is
		// then named like a command another program calls)
		pool := []string{"alpha", "beta", "gamma", "delta", "eps", "zeta", "mkdir", "ls", "cat", "sort", "grep", "deploy"}
		free := []string{}
		for _, n := range pool {
			used := false
			for _, f := range g.funcs {
				if f.Name == n {
					used = true
				}
			}
			if !used {
				free = append(free, n)
			}
		}
		if len(free) > 0 {
			sig.Name = r.Pick(free)
		}
	}
	env := append([]variable{}, globals...)
	if g.f.LibScoped {
		env = nil
	}
	ps := []string{}
	for n := r.Intn(4); n > 0; n-- {
		t := Pick(r, g.types())
		name := g.fresh("p")
		sig.Params = append(sig.Params, t)
		ps = append(ps, name+" "+t)
		env = append(env, variable{name, t})
	}
	nret := r.Intn(2)
	if g.f.MultiRet && r.Chance(35) {
		nret = r.Range(2, 3)
	}
	for i := 0; i < nret; i++ {
		sig.Rets = append(sig.Rets, Pick(r, g.types()))
	}
	if g.f.MultiRet && g.f.Strings && r.Chance(10) {
		sig.Rets = []string{"string", "string", "int"}
	}
	head := fmt.Sprintf("func %s(%s)", sig.Name, strings.Join(ps, ", "))
	if len(ps) == 0 && r.Chance(20) {
		head = "func " + sig.Name
	}
	switch len(sig.Rets) {
	case 0:
	case 1:
		head += " " + sig.Rets[0]
	default:
		head += " (" + strings.Join(sig.Rets, ", ") + ")"
	}
	g.line("%s {", head)
	g.indent++
	g.curRets, g.inFn = sig.Rets, true
	env = g.block(env, r.Range(0, g.f.MaxBody+1), 1, true, false, false)
	g.curRets, g.inFn = nil, false
	if len(sig.Rets) > 0 {
		vals := make([]string, len(sig.Rets))
		for i, t := range sig.Rets {
			vals[i] = g.expr(t, env, 1)
		}
		switch {
		case r.Chance(6):
			// the function ends in a branching statement whose branches return
			// (Go accepts that; TypeShell asks for a final return statement)
			g.line("if %s {", g.expr("bool", env, 1))
			if r.Chance(60) {
				g.line("\treturn %s", strings.Join(vals, ", "))
			}
			g.line("} else {")
			g.line("\treturn %s", strings.Join(vals, ", "))
			g.line("}")
		case r.Chance(4):
			g.line("switch {")
			if r.Chance(50) {
				g.line("case %s:", g.expr("bool", env, 1))
			}
			g.line("default:")
			g.line("\treturn %s", strings.Join(vals, ", "))
			g.line("}")
		default:
			g.line("return %s", strings.Join(vals, ", "))
		}
	}
	g.indent--
	g.line("}")
	g.line("")
	return sig
}

// GenProgram produces one source file. tag makes identifiers unique per file.
func GenProgram(r *Rng, f Feat, imports []ModuleRef, tag string) (string, []FuncSig) {
	g := &pgen{r: r, f: f, tag: tag}
	g.blk = f.Comments && r.Chance(25)
	if f.Comments && r.Chance(40) {
		g.line("/* generated\n   program %s */", tag)
	}
	if len(imports) > 0 {
		if len(imports) == 1 && r.Chance(40) {
			im := imports[0]
			if im.Alias != "" {
				g.line("import %s %q", im.Alias, im.Path)
			} else {
				g.line("import %q", im.Path)
			}
		} else {
			g.line("import (")
			for _, im := range imports {
				if im.Alias != "" {
					g.line("\t%s %q", im.Alias, im.Path)
				} else {
					g.line("\t%q", im.Path)
				}
			}
			g.line(")")
		}
		g.line("")
		for _, im := range imports {
			for _, fs := range im.Funcs {
				q := fs
				q.Name = im.Name + "." + fs.Name
				g.funcs = append(g.funcs, q)
			}
		}
	}
	public := []FuncSig{}
	env := []variable{}
	if f.SharedGlobals && f.PublicFuncs {
		// public globals whose names other library files use as well
		for _, n := range []string{"Name", "Version", "Debug"} {
			if r.Chance(60) {
				switch n {
				case "Name":
					g.line("var Name string = \"%s\"", tag)
				case "Version":
					g.line("Version := %d", r.Intn(9))
				default:
					g.line("var Debug bool = %v", r.Chance(50))
				}
			}
		}
	} else if f.SharedGlobals && len(imports) > 1 && r.Chance(40) {
		// ... and an importing file that reads such a name without defining it (the pinned parser
		// rejects this: the name belongs to the imported files)
		g.line("print(%s)", r.Pick([]string{"Name", "Version", "Debug"}))
	}
	// a few globals first so that functions can use them
	if f.Tiny {
		// typed declarations without initial value for slices keep the program free of literals
		for _, t := range []string{"[]string", "[]int", "string", "int"} {
			if r.Chance(35) {
				name := g.fresh("v")
				if strings.HasPrefix(t, "[]") {
					g.line("%s := %s{}", name, t)
				} else {
					g.line("var %s %s = %s", name, t, g.expr(t, env, g.f.MaxExpr))
				}
				env = append(env, variable{name, t})
			}
		}
	}
	env = g.block(env, r.Intn(3), g.f.MaxDepth, false, false, f.PublicFuncs)
	if f.Funcs {
		for n := r.Range(0, f.MaxFuncs); n > 0; n-- {
			pub := f.PublicFuncs && r.Chance(70)
			sig := g.funcDef(env, pub)
			g.funcs = append(g.funcs, sig)
			if pub {
				public = append(public, sig)
			}
		}
	}
	topDepth := 0
	if f.LibScoped {
		topDepth = g.f.MaxDepth // no nested blocks at the top level of an imported file
	}
	env = g.block(env, r.Range(1, f.MaxTop), topDepth, false, false, f.PublicFuncs)
	// most functions get called at least once: unused ones are pruned before the
	// converters see them, so they would exercise the parser only
	if r.Chance(70) {
		src := g.sb.String()
		for _, fn := range g.funcs {
			if strings.Contains(fn.Name, ".") || strings.Count(src, fn.Name+"(") > 1 || r.Chance(25) {
				continue
			}
			switch len(fn.Rets) {
			case 0:
				g.line("%s", g.callExpr(fn, env, 1))
			default:
				names := make([]string, len(fn.Rets))
				for j := range names {
					names[j] = fmt.Sprintf("uc%s%d", g.tag, g.n+j+1)
				}
				g.n += len(names)
				g.line("%s := %s", strings.Join(names, ", "), g.callExpr(fn, env, 1))
			}
		}
	}
	// functions with a twin are both used (unused functions never reach the converters)
	for _, name := range g.twins {
		for _, fn := range g.funcs {
			if fn.Name != name {
				continue
			}
			switch len(fn.Rets) {
			case 0:
				g.line("%s", g.callExpr(fn, env, 1))
			default:
				names := make([]string, len(fn.Rets))
				for j := range names {
					names[j] = fmt.Sprintf("tw%s%d", g.tag, g.n+j+1)
				}
				g.n += len(names)
				g.line("%s := %s", strings.Join(names, ", "), g.callExpr(fn, env, 1))
			}
			break
		}
	}
	if !f.PublicFuncs && r.Chance(6) {
		// the way the program ENDS: a program call whose last argument ends in a line feed, a
		// comment without a final line feed, blank lines, a statement without a final line feed
		switch r.Intn(4) {
		case 0:
			g.line("@echo(\"bye\\n\")")
		case 1:
			g.sb.WriteString("// the end")
		case 2:
			g.sb.WriteString("\n\n\n")
		default:
			g.sb.WriteString("print(0)")
		}
	}
	return g.sb.String(), public
}

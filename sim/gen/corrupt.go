package gen

import (
	"go/ast"
	"go/parser"
	"go/token"
	"os"
	"path/filepath"
	"regexp"
	"sort"
	"strconv"
	"strings"
)

var tokRe = regexp.MustCompile("[A-Za-z_][A-Za-z0-9_]*|\\d+|\"(?:[^\"\\\\\\n]|\\\\.)*\"|`[^`]*`|//[^\\n]*|:=|==|!=|<=|>=|&&|\\|\\||\\+\\+|--|\\+=|-=|\\*=|/=|%=|\\n|[ \\t]+|.")

// Tokens splits source text into coarse lexical pieces (own approximation,
// independent of the lexer under test); concatenating them gives the input.
func Tokens(src string) []string { return tokRe.FindAllString(src, -1) }

// Vocab is the token vocabulary used for substitutions and for the exhaustive tiny-input enumeration.
var Vocab = vocab

var vocab = []string{
	"import", "var", "func", "return", "if", "else", "switch", "case", "default", "for", "range", "break", "continue", "nil",
	"len", "print", "input", "copy", "itoa", "exists", "read", "write", "panic", "bool", "int", "string", "error", "true", "false",
	"(", ")", "[", "]", "{", "}", "==", "!=", "<=", ">=", "<", ">", "&&", "||", "+=", "-=", "*=", "/=", "%=", "=", ":=", "++", "--",
	"!", "+", "-", "*", "/", "%", ",", ":", ";", ".", "@", "|", "\n", "\"", "`", "\"s\"", "0", "1", "-1", "99999999999999999999", "1.5",
	"x", "f", "f()", "x[0]", "[]int{}", "[]", "\\", "//", "/*", "*/", "\r\n", "\x00", "é", "\xff",
	// words of Go the language does not have (yet)
	"make", "append", "cap", "new", "delete", "map", "chan", "go", "defer", "struct", "type", "const", "float64", "byte", "rune", "iota", "goto", "fallthrough", "select", "interface", "package",
}

// Corrupt returns a mutated copy of src plus a short description.
func Corrupt(r *Rng, src []byte) ([]byte, string) {
	s := string(src)
	toks := Tokens(s)
	sig := []int{} // indices of non-blank tokens
	for i, t := range toks {
		if strings.TrimSpace(t) != "" || t == "\n" {
			sig = append(sig, i)
		}
	}
	join := func(ts []string) []byte { return []byte(strings.Join(ts, "")) }
	cp := func() []string { return append([]string{}, toks...) }
	if len(sig) == 0 {
		return []byte(r.Pick(vocab)), "vocab-only"
	}
	pickSig := func() int { return sig[r.Intn(len(sig))] }
	switch r.Intn(15) {
	case 14: // the file as another tool would have encoded it
		return Reencode(r, src)
	case 0: // truncate at token boundary
		i := pickSig()
		return join(toks[:i]), "trunc-token"
	case 1: // truncate at arbitrary byte
		if len(src) == 0 {
			return src, "noop"
		}
		return append([]byte{}, src[:r.Intn(len(src))]...), "trunc-byte"
	case 2: // truncate inside a string literal or comment
		for tries := 0; tries < 20; tries++ {
			i := pickSig()
			if len(toks[i]) > 2 && (toks[i][0] == '"' || toks[i][0] == '`' || strings.HasPrefix(toks[i], "//")) {
				cut := 1 + r.Intn(len(toks[i])-1)
				return []byte(strings.Join(toks[:i], "") + toks[i][:cut]), "trunc-in-literal"
			}
		}
		return join(toks[:pickSig()]), "trunc-token"
	case 3: // delete a token
		t := cp()
		i := pickSig()
		return join(append(t[:i], t[i+1:]...)), "del-token"
	case 4: // duplicate a token
		t := cp()
		i := pickSig()
		t = append(t[:i+1], t[i:]...)
		return join(t), "dup-token"
	case 5: // swap two tokens
		t := cp()
		i, j := pickSig(), pickSig()
		t[i], t[j] = t[j], t[i]
		return join(t), "swap-tokens"
	case 6: // substitute a token from the vocabulary
		t := cp()
		t[pickSig()] = r.Pick(vocab)
		return join(t), "subst-token"
	case 7: // insert a vocabulary token
		t := cp()
		i := pickSig()
		t = append(t[:i], append([]string{r.Pick(vocab), " "}, t[i:]...)...)
		return join(t), "insert-token"
	case 8: // two token edits
		a, d1 := Corrupt(r, src)
		b, d2 := Corrupt(r, a)
		return b, d1 + "+" + d2
	case 9: // flip one byte
		if len(src) == 0 {
			return src, "noop"
		}
		b := append([]byte{}, src...)
		b[r.Intn(len(b))] ^= byte(1 << uint(r.Intn(8)))
		return b, "flip-byte"
	case 10: // CRLF line ends / NUL / BOM
		switch r.Intn(3) {
		case 0:
			return []byte(strings.ReplaceAll(s, "\n", "\r\n")), "crlf"
		case 1:
			i := r.Intn(len(src) + 1)
			return append(append(append([]byte{}, src[:i]...), 0), src[i:]...), "nul"
		default:
			return append([]byte("\xef\xbb\xbf"), src...), "bom"
		}
	case 11: // delete a whole line
		lines := strings.Split(s, "\n")
		i := r.Intn(len(lines))
		return []byte(strings.Join(append(lines[:i:i], lines[i+1:]...), "\n")), "del-line"
	case 12: // replace a token by another token of the same file
		t := cp()
		t[pickSig()] = toks[pickSig()]
		return join(t), "subst-from-file"
	default: // arbitrary bytes
		n := r.Intn(40)
		b := make([]byte, n)
		for i := range b {
			if r.Chance(70) {
				b[i] = byte(32 + r.Intn(95))
			} else {
				b[i] = byte(r.Intn(256))
			}
		}
		return b, "random-bytes"
	}
}

// Reencode returns src in another encoding or with an encoding mark: UTF-8 with a byte order
// mark, UTF-16 (little/big endian, with and without mark), Latin-1 high bytes — whole, cut in the
// middle of a code unit, or with one stray byte appended (text appended by a tool that assumed
// another encoding).
func Reencode(r *Rng, src []byte) ([]byte, string) {
	utf16 := func(le, bom bool) []byte {
		out := []byte{}
		if bom {
			if le {
				out = append(out, 0xFF, 0xFE)
			} else {
				out = append(out, 0xFE, 0xFF)
			}
		}
		for _, c := range string(src) {
			if c > 0xFFFF {
				c = '?'
			}
			if le {
				out = append(out, byte(c), byte(c>>8))
			} else {
				out = append(out, byte(c>>8), byte(c))
			}
		}
		return out
	}
	var b []byte
	desc := ""
	if r.Chance(20) {
		// a first line that other tools understand: with a line feed, a lone CR, or nothing after it
		line := r.Pick([]string{"#!/usr/bin/env tsh", "#!", "#!/bin/sh -e", "#", "#! tsh"})
		switch r.Intn(4) {
		case 0:
			return []byte(line), "enc:shebang-only"
		case 1:
			return append([]byte(line+"\r"), src...), "enc:shebang-cr"
		case 2:
			return []byte(line + " " + strings.ReplaceAll(string(src), "\n", " ")), "enc:shebang-no-newline"
		}
		return append([]byte(line+"\n"), src...), "enc:shebang"
	}
	switch r.Intn(7) {
	case 0:
		b, desc = append([]byte("\xef\xbb\xbf"), src...), "enc:utf8-bom"
	case 1:
		b, desc = utf16(true, true), "enc:utf16le-bom"
	case 2:
		b, desc = utf16(false, true), "enc:utf16be-bom"
	case 3:
		b, desc = utf16(r.Chance(50), false), "enc:utf16-nobom"
	case 4: // only the mark, then the text as it was
		b, desc = append([]byte(r.Pick([]string{"\xff\xfe", "\xfe\xff", "\xff\xfe\x00\x00", "\x00\x00\xfe\xff", "\x2b\x2f\x76"})), src...), "enc:mark-only"
	case 5: // Latin-1: some letters become single high bytes
		b, desc = []byte(strings.NewReplacer("a", "\xe4", "o", "\xf6", "u", "\xfc").Replace(string(src))), "enc:latin1"
	default:
		b, desc = utf16(true, true), "enc:utf16le-bom"
	}
	switch r.Intn(4) {
	case 0:
		if len(b) > 2 {
			b = b[:len(b)-1]
			desc += "-cut"
		}
	case 1:
		b = append(b, r.Pick([]string{"\n", "x", "\x00"})...)
		desc += "+stray"
	case 2:
		if len(b) > 6 {
			b = b[:2+r.Intn(len(b)-2)]
			desc += "-trunc"
		}
	}
	return b, desc
}

// HarvestCorpus collects program texts from the repository under test: string
// literals of tests/*.go that look like programs, examples/*.tsh, std/*.tsh.
// The result is sorted, so it is a pure function of the tree.
func HarvestCorpus(repo string) []string {
	set := map[string]bool{}
	if ents, err := os.ReadDir(filepath.Join(repo, "tests")); err == nil {
		fset := token.NewFileSet()
		for _, e := range ents {
			if !strings.HasSuffix(e.Name(), ".go") {
				continue
			}
			af, err := parser.ParseFile(fset, filepath.Join(repo, "tests", e.Name()), nil, 0)
			if err != nil {
				continue
			}
			ast.Inspect(af, func(n ast.Node) bool {
				if bl, ok := n.(*ast.BasicLit); ok && bl.Kind == token.STRING {
					if s, err := strconv.Unquote(bl.Value); err == nil && strings.Contains(s, "\n") && len(s) > 8 && len(s) < 6000 {
						set[dedent(s)] = true
					}
				}
				return true
			})
		}
	}
	for _, d := range []string{"examples", "std"} {
		if ents, err := os.ReadDir(filepath.Join(repo, d)); err == nil {
			for _, e := range ents {
				if strings.HasSuffix(e.Name(), ".tsh") {
					if b, err := os.ReadFile(filepath.Join(repo, d, e.Name())); err == nil && len(b) < 8000 {
						set[string(b)] = true
					}
				}
			}
		}
	}
	out := make([]string, 0, len(set))
	for s := range set {
		out = append(out, s)
	}
	sort.Strings(out)
	return out
}

func dedent(s string) string {
	lines := strings.Split(s, "\n")
	for i, l := range lines {
		lines[i] = strings.TrimLeft(l, "\t ")
	}
	return strings.TrimLeft(strings.Join(lines, "\n"), "\n")
}

// TokenEdit is one systematic single-token edit of a program.
type TokenEdit struct {
	Src  string
	Desc string
}

// TokenEdits enumerates single-token edits of src completely over the positions: at every
// significant token position the token is deleted, duplicated, swapped with the next significant
// token, replaced by nv vocabulary tokens (a window of the vocabulary that starts at voff and
// moves with the position, so that successive sweeps cover all of it) and by nf distinct tokens
// of the file itself. The quantifier of C13 names "all single- and double-token edits of valid
// programs"; the seeded corruptions sample that space, this enumerates one program's slice of it.
func TokenEdits(src string, voff, nv, nf int) []TokenEdit {
	toks := Tokens(src)
	sig := []int{}
	seen := map[string]bool{}
	distinct := []string{}
	for i, t := range toks {
		if strings.TrimSpace(t) != "" || t == "\n" {
			sig = append(sig, i)
			if !seen[t] {
				seen[t] = true
				distinct = append(distinct, t)
			}
		}
	}
	join := func(ts []string) string { return strings.Join(ts, "") }
	out := []TokenEdit{}
	for k, i := range sig {
		cp := func() []string { return append([]string{}, toks...) }
		t := cp()
		out = append(out, TokenEdit{join(append(t[:i], t[i+1:]...)), "sweep-del"})
		t = cp()
		out = append(out, TokenEdit{join(append(t[:i+1], t[i:]...)), "sweep-dup"})
		if k+1 < len(sig) {
			t = cp()
			j := sig[k+1]
			t[i], t[j] = t[j], t[i]
			out = append(out, TokenEdit{join(t), "sweep-swap"})
		}
		for n := 0; n < nv; n++ {
			v := vocab[(voff+k*nv+n)%len(vocab)]
			if v == toks[i] {
				continue
			}
			t = cp()
			t[i] = v
			out = append(out, TokenEdit{join(t), "sweep-subst"})
		}
		for n := 0; n < nf && n < len(distinct); n++ {
			v := distinct[(voff+k*nf+n)%len(distinct)]
			if v == toks[i] {
				continue
			}
			t = cp()
			t[i] = v
			out = append(out, TokenEdit{join(t), "sweep-subst-file"})
		}
	}
	return out
}

// SigTokens counts the significant (non-blank) tokens of src.
func SigTokens(src string) int {
	n := 0
	for _, t := range Tokens(src) {
		if strings.TrimSpace(t) != "" || t == "\n" {
			n++
		}
	}
	return n
}

module verifsim

go 1.23

// Package simrt is the simulation runtime. It is compiled twice: as part of
// the orchestrator (module verifsim) and, copied verbatim, inside the
// instrumented scratch copy of the repository under test, where every
// os/filepath/time/rand call and every map range has been rerouted to it.
//
// Nothing in this package reads a real clock, real randomness, the real
// environment or iterates a Go map in native order.
package simrt

import (
	"encoding/base64"
	"encoding/json"
	"unicode/utf8"
)

// Bytes is a byte string that marshals as a plain JSON string when it is
// valid UTF-8 (readable replay files) and as {"b64": "..."} otherwise.
type Bytes []byte

func (b Bytes) MarshalJSON() ([]byte, error) {
	if utf8.Valid(b) {
		ok := true
		for _, c := range b {
			if c == 0 {
				ok = false
				break
			}
		}
		if ok {
			return json.Marshal(string(b))
		}
	}
	return json.Marshal(map[string]string{"b64": base64.StdEncoding.EncodeToString(b)})
}

func (b *Bytes) UnmarshalJSON(data []byte) error {
	if len(data) > 0 && data[0] == '"' {
		var s string
		if err := json.Unmarshal(data, &s); err != nil {
			return err
		}
		*b = Bytes(s)
		return nil
	}
	if string(data) == "null" {
		*b = nil
		return nil
	}
	var m map[string]string
	if err := json.Unmarshal(data, &m); err != nil {
		return err
	}
	d, err := base64.StdEncoding.DecodeString(m["b64"])
	if err != nil {
		return err
	}
	*b = Bytes(d)
	return nil
}

// FileSpec is one entry of a MemFS image.
type FileSpec struct {
	Path string `json:"path"`
	Dir  bool   `json:"dir,omitempty"`
	Data Bytes  `json:"data,omitempty"`
	Link string `json:"link,omitempty"` // symbolic link target
	HardLink string `json:"hard_link,omitempty"` // another name of the file at this (absolute) path: same inode, same bytes
	Age      int64  `json:"age,omitempty"`       // seconds by which the modification time lies before the world's epoch (negative: in the future)
}

// Fault kinds. Error-returning kinds are errno names; the others corrupt.
const (
	KENOENT  = "ENOENT"
	KEACCES  = "EACCES"
	KEIO     = "EIO"
	KEISDIR  = "EISDIR"
	KENOTDIR = "ENOTDIR"
	KELOOP   = "ELOOP"
	KENOSPC  = "ENOSPC"
	KEMFILE  = "EMFILE"
	KTORN    = "TORN"   // read returns only the first N bytes, no error
	KFLIP    = "FLIP"   // byte N of the data read is xor-ed with B
	KEMPTY   = "EMPTY"  // read returns zero bytes, no error
	KMUTATE  = "MUTATE" // read returns Data instead of the stored bytes
	KSHORT   = "SHORT"  // write stores only N bytes and then fails with ENOSPC
	KISDIR   = "ISDIR"  // stat reports a directory
)

// Ops (one I/O sequence number each).
const (
	OpStat       = "stat"
	OpRead       = "readfile"
	OpWOpen      = "write.open"
	OpWData      = "write.data"
	OpWClose     = "write.close"
	OpExecutable = "executable"
	OpGetwd      = "getwd"
	OpRename     = "rename"
	OpRemove     = "remove"
	OpMkdir      = "mkdir"
	OpReadDir    = "readdir"
	OpOpen       = "open"
	OpFRead      = "file.read"
	OpFWrite     = "file.write"
	OpFClose     = "file.close"
	OpChmod      = "chmod"
	OpEvent      = "event" // world event (external edit), not an I/O call of the code
	OpMapRange   = "maprange"
	OpExit       = "exit"
	OpClock      = "clock"
	OpDelta      = "delta" // journal only: new state of one path
)

// Fault is one fault rule. It strikes the I/O call whose global sequence
// number is Seq (if Seq >= 0), or else the Nth (0-based) call whose Op equals
// Op and whose path ends in PathSuffix.
type Fault struct {
	Seq        int    `json:"seq"`
	Op         string `json:"op,omitempty"`
	PathSuffix string `json:"path_suffix,omitempty"`
	Nth        int    `json:"nth,omitempty"`
	Kind       string `json:"kind"`
	N          int    `json:"n,omitempty"`
	B          int    `json:"b,omitempty"`
	Data       Bytes  `json:"data,omitempty"`

	seen  int
	Fired int `json:"fired,omitempty"`
}

// Event is something the environment does at a given I/O sequence number
// (an unrelated process editing a file while the code under test runs).
type Event struct {
	AtSeq int    `json:"at_seq"`
	Kind  string `json:"kind"` // "write" | "remove"
	Path  string `json:"path"`
	Data  Bytes  `json:"data,omitempty"`
	Done  bool   `json:"done,omitempty"`
}

// Budgets bound one call into the code under test.
type Budgets struct {
	Ticks int64 `json:"ticks"`
	IO    int   `json:"io"`
	Depth int   `json:"depth"`
}

func DefaultBudgets() Budgets {
	return Budgets{Ticks: 200_000_000, IO: 10_000, Depth: 100_000}
}

// WorldSpec is the complete description of a simulated process environment.
type WorldSpec struct {
	Files   []FileSpec `json:"files"`
	Cwd     string     `json:"cwd"`
	Exe     string     `json:"exe"`
	Args    []string   `json:"args,omitempty"`
	MapMode string     `json:"map_mode,omitempty"` // canonical|reversed|rotate|shuffle
	MapSeed uint64     `json:"map_seed,omitempty"`
	Faults  []*Fault   `json:"faults,omitempty"`
	Events  []*Event   `json:"events,omitempty"`
	Epoch   int64      `json:"epoch,omitempty"`
	Budgets *Budgets   `json:"budgets,omitempty"`
	Devices []string   `json:"devices,omitempty"` // path prefixes that are separate file systems
	StdoutClosed bool  `json:"stdout_closed,omitempty"` // process mode: standard output is a pipe whose reader has gone away (tsh ... | head -0)
}

// TraceEv is one entry of the execution trace.
type TraceEv struct {
	Seq    int    `json:"seq"`
	Op     string `json:"op"`
	Path   string `json:"path,omitempty"`
	Res    string `json:"res,omitempty"`   // "ok", errno name
	Fault  string `json:"fault,omitempty"` // fault kind that fired here
	N      int    `json:"n,omitempty"`     // bytes
	Digest string `json:"digest,omitempty"`
	Data   Bytes  `json:"data,omitempty"` // only for mutating ops when journaling
	Code   int    `json:"code,omitempty"`
}

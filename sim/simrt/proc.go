package simrt

import (
	"encoding/json"
	"fmt"
	"os"
)

// Process-level activation: the instrumented command (tsh_sim) is an ordinary
// binary; when SIMRT_PLAN names a WorldSpec file the world is installed before
// main runs (this package is initialised before package main), and every
// trace event is journalled, unbuffered, to SIMRT_OUT as one JSON object per
// line, so that the final file-system state can be reconstructed however the
// process ends (return, panic, os.Exit, fatal error).
func init() {
	plan := os.Getenv("SIMRT_PLAN")
	if plan == "" {
		return
	}
	raw, err := os.ReadFile(plan)
	if err != nil {
		fmt.Fprintln(os.Stderr, "simrt: cannot read plan:", err)
		os.Exit(97)
	}
	var spec WorldSpec
	if err := json.Unmarshal(raw, &spec); err != nil {
		fmt.Fprintln(os.Stderr, "simrt: bad plan:", err)
		os.Exit(97)
	}
	w := NewWorld(&spec)
	w.KeepData = true
	out, err := os.OpenFile(os.Getenv("SIMRT_OUT"), os.O_WRONLY|os.O_CREATE|os.O_TRUNC, 0o644)
	if err != nil {
		fmt.Fprintln(os.Stderr, "simrt: cannot open journal:", err)
		os.Exit(97)
	}
	enc := json.NewEncoder(out)
	w.Sink = func(ev *TraceEv) { enc.Encode(ev) }
	AtExitHook = func() {
		enc.Encode(map[string]any{"op": "atexit", "ticks": w.Ticks, "io": w.IOSeq, "max_depth": w.MaxDepth,
			"map_ranges": w.MapRanges, "map_noncanonical": w.MapNonCanonical, "faults": w.Faults})
		out.Close()
	}
	W = w
	w.syncDeltas(0) // baseline: journals the pre-state image
	w.BeginCall()
}

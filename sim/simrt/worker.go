package simrt

// Types of the protocol between the orchestrator and the worker process
// (simharness). A plan is explicit: the worker draws nothing at random, so
// replaying a plan is replaying the execution.

type Case struct {
	ID           string    `json:"id,omitempty"`
	World        WorldSpec `json:"world"`
	Path         string    `json:"path"`   // argument passed to Transpile (may be relative)
	Target       string    `json:"target"` // bash | batch
	ReturnScript bool      `json:"return_script,omitempty"`
	Warmup       []string  `json:"warmup,omitempty"` // targets the SAME transpiler object transpiles this file for first (tsh -t batch -t bash); their results are dropped
	ReturnTrace  bool      `json:"return_trace,omitempty"`
}

type CallResult struct {
	ID           string    `json:"id,omitempty"`
	Kind         string    `json:"kind"` // script | error | panic | budget | both | neither
	Err          string    `json:"err,omitempty"`
	ErrEmpty     bool      `json:"err_empty,omitempty"`
	Script       *Bytes    `json:"script,omitempty"`
	ScriptSHA    string    `json:"script_sha,omitempty"`
	ScriptLen    int       `json:"script_len,omitempty"`
	PanicMsg     string    `json:"panic_msg,omitempty"`
	PanicTop     string    `json:"panic_top,omitempty"`
	BudgetKind   string    `json:"budget_kind,omitempty"`
	Ticks        int64     `json:"ticks"`
	IO           int       `json:"io"`
	MaxDepth     int       `json:"max_depth,omitempty"`
	TraceDigest  string    `json:"trace_digest"`
	Trace        []TraceEv `json:"trace,omitempty"`
	FaultsFired  []int     `json:"faults_fired,omitempty"`
	MapRanges    int       `json:"map_ranges,omitempty"`
	MapNonCanon  int       `json:"map_noncanon,omitempty"`
	EventsDone   int       `json:"events_done,omitempty"`
	StepKind     string    `json:"step_kind,omitempty"`
}

// Step is one step of a history (C14).
type Step struct {
	Kind string `json:"kind"` // transpile | write | remove | symlink | hardlink | move | chdir | exe | epoch

	// transpile
	Obj     int      `json:"obj,omitempty"`
	Path    string   `json:"path,omitempty"`
	Target  string   `json:"target,omitempty"`
	MapMode string   `json:"map_mode,omitempty"`
	MapSeed uint64   `json:"map_seed,omitempty"`
	Events  []*Event `json:"events,omitempty"` // AtSeq relative to the start of the call
	Tag     string   `json:"tag,omitempty"`    // opaque to the worker (oracle key of the orchestrator)
	ExtraConv string `json:"extra_conv,omitempty"` // a converter of this target is constructed (and never used) after the call's own converter

	// write / remove
	File      string `json:"file,omitempty"`
	Data      Bytes  `json:"data,omitempty"`
	KeepMtime bool   `json:"keep_mtime,omitempty"` // the edit keeps the file's modification time (an edit within the timestamp granularity, or a tool that restores it)

	// symlink: File becomes a symbolic link to Link; hardlink: File becomes another name of the file Link
	Link string `json:"link,omitempty"`

	// move
	From string `json:"from,omitempty"`
	To   string `json:"to,omitempty"`

	// chdir / exe
	Dir string `json:"dir,omitempty"`

	// epoch
	Jump int64 `json:"jump,omitempty"`
}

type History struct {
	World WorldSpec `json:"world"`
	Steps []Step    `json:"steps"`
}

type WorkerPlan struct {
	Mode    string   `json:"mode"` // cases | history
	Cases   []Case   `json:"cases,omitempty"`
	History *History `json:"history,omitempty"`
}

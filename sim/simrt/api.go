package simrt

import (
	"os/exec"
	"sync"
	"sync/atomic"
	"errors"
	"fmt"
	"io"
	"io/fs"
	"iter"
	"os"
	"path/filepath"
	"runtime"
	"sort"
	"strings"
	"syscall"
	"time"
)

// ---------------------------------------------------------------- os.* seams

func Stat(name string) (fs.FileInfo, error) {
	enter()
	defer leave()
	if W == nil {
		return os.Stat(name)
	}
	return W.stat(name)
}

func Lstat(name string) (fs.FileInfo, error) {
	enter()
	defer leave()
	if W == nil {
		return os.Lstat(name)
	}
	p := W.resolveNoFollow(name)
	if n, e := W.lookup(p); e == 0 && n.link != "" {
		seq, _ := W.begin(OpStat, p)
		W.log(&TraceEv{Seq: seq, Op: OpStat, Path: p, Res: "ok", Digest: "link"})
		return fileInfo{name: filepath.Base(p), size: int64(len(n.link)), mode: fs.ModeSymlink | 0o777, mt: time.Unix(n.mt, 0).UTC(), id: n}, nil
	}
	return W.stat(name)
}

func Symlink(oldname, newname string) error {
	enter()
	defer leave()
	if W == nil {
		return os.Symlink(oldname, newname)
	}
	p, ev, err := W.simple(OpMkdir, newname)
	defer W.log(ev)
	if err != nil {
		return &os.LinkError{Op: "symlink", Old: oldname, New: newname, Err: err.(*fs.PathError).Err}
	}
	p = W.resolveNoFollow(newname)
	if _, e := W.lookup(p); e == 0 {
		ev.Res = "EEXIST"
		return &os.LinkError{Op: "symlink", Old: oldname, New: newname, Err: syscall.EEXIST}
	}
	parent, e := W.lookup(filepath.Dir(p))
	if e == 0 && !parent.dir {
		e = syscall.ENOTDIR
	}
	ev.Res = errnoName(e)
	if e != 0 {
		return &os.LinkError{Op: "symlink", Old: oldname, New: newname, Err: e}
	}
	W.fs[p] = &node{link: oldname, mode: fs.ModeSymlink | 0o777}
	return nil
}

// Link creates newname as a hard link to oldname (another name of the same file).
func Link(oldname, newname string) error {
	enter()
	defer leave()
	if W == nil {
		return os.Link(oldname, newname)
	}
	p, ev, err := W.simple(OpMkdir, newname)
	defer W.log(ev)
	if err != nil {
		return &os.LinkError{Op: "link", Old: oldname, New: newname, Err: err.(*fs.PathError).Err}
	}
	p = W.resolveNoFollow(newname)
	src, e := W.lookup(W.resolveNoFollow(oldname))
	if e == 0 {
		// the kernel looks up the old name, then walks to the parent of the new name, then judges
		if parent, e3 := W.lookup(filepath.Dir(p)); e3 != 0 {
			e = e3
		} else if !parent.dir {
			e = syscall.ENOTDIR
		} else if _, e2 := W.lookup(p); e2 == 0 {
			e = syscall.EEXIST
		} else if e2 != syscall.ENOENT {
			e = e2
		} else if src.dir {
			e = syscall.EPERM
		} else if W.deviceOf(p) != W.deviceOf(W.resolveNoFollow(oldname)) {
			e = syscall.EXDEV
		}
	}
	ev.Res = errnoName(e)
	if e != 0 {
		return &os.LinkError{Op: "link", Old: oldname, New: newname, Err: e}
	}
	W.fs[p] = src
	return nil
}

// Glob is filepath.Glob over the simulated files: a name matches when the whole (absolute) path
// matches the pattern component by component; results come in lexical order.
func Glob(pattern string) ([]string, error) {
	enter()
	defer leave()
	if W == nil {
		return filepath.Glob(pattern)
	}
	if _, err := filepath.Match(pattern, ""); err != nil {
		return nil, err
	}
	abs := pattern
	if !filepath.IsAbs(abs) {
		abs = filepath.Join(W.Cwd, pattern)
	} else {
		abs = filepath.Clean(abs)
	}
	seq, _ := W.begin(OpReadDir, abs)
	W.log(&TraceEv{Seq: seq, Op: OpReadDir, Path: abs, Res: "glob"})
	out := []string{}
	for _, k := range W.sortedPaths() {
		if ok, _ := filepath.Match(abs, k); ok {
			if filepath.IsAbs(pattern) {
				out = append(out, k)
			} else if rel, err := filepath.Rel(W.Cwd, k); err == nil {
				out = append(out, rel)
			}
		}
	}
	if len(out) == 0 {
		return nil, nil
	}
	return out, nil
}

// WalkDir is filepath.WalkDir over the simulated files (lexical order, like the real one).
func WalkDir(root string, fn fs.WalkDirFunc) error {
	enter()
	defer leave()
	if W == nil {
		return filepath.WalkDir(root, fn)
	}
	info, err := Lstat(root)
	if err != nil {
		err = fn(root, nil, err)
	} else {
		err = walkDir(root, dirEntry{info.(fileInfo)}, fn)
	}
	if err == filepath.SkipDir || err == filepath.SkipAll {
		return nil
	}
	return err
}

func walkDir(path string, d fs.DirEntry, fn fs.WalkDirFunc) error {
	if err := fn(path, d, nil); err != nil || !d.IsDir() {
		if err == filepath.SkipDir && d.IsDir() {
			err = nil
		}
		return err
	}
	entries, err := W.readDir(path)
	if err != nil {
		if err = fn(path, d, err); err != nil {
			if err == filepath.SkipDir && d.IsDir() {
				err = nil
			}
			return err
		}
	}
	for _, e := range entries {
		if err := walkDir(filepath.Join(path, e.Name()), e, fn); err != nil {
			if err == filepath.SkipDir {
				break
			}
			return err
		}
	}
	return nil
}

// Walk is filepath.Walk over the simulated files.
func Walk(root string, fn filepath.WalkFunc) error {
	return WalkDir(root, func(p string, d fs.DirEntry, err error) error {
		var info fs.FileInfo
		if d != nil {
			info, _ = d.Info()
		}
		return fn(p, info, err)
	})
}

// LookPath is exec.LookPath in the simulated world: the simulated PATH, the simulated files.
func LookPath(file string) (string, error) {
	enter()
	defer leave()
	if W == nil {
		return exec.LookPath(file)
	}
	isFile := func(p string) bool {
		n, e := W.lookup(W.resolve(p))
		return e == 0 && !n.dir
	}
	if strings.Contains(file, "/") {
		if isFile(file) {
			return file, nil
		}
		return "", &exec.Error{Name: file, Err: exec.ErrNotFound}
	}
	path, _ := simEnv("PATH")
	for _, dir := range filepath.SplitList(path) {
		if dir == "" {
			dir = "."
		}
		if p := filepath.Join(dir, file); isFile(p) {
			return p, nil
		}
	}
	return "", &exec.Error{Name: file, Err: exec.ErrNotFound}
}

// SameFile reports whether two FileInfos describe the same file (same inode), as os.SameFile does.
func SameFile(a, b fs.FileInfo) bool {
	fa, oka := a.(fileInfo)
	fb, okb := b.(fileInfo)
	if oka && okb {
		return fa.id != nil && fa.id == fb.id
	}
	if oka || okb {
		return false
	}
	return os.SameFile(a, b)
}

func Readlink(name string) (string, error) {
	enter()
	defer leave()
	if W == nil {
		return os.Readlink(name)
	}
	p := W.resolveNoFollow(name)
	n, e := W.lookup(p)
	if e == 0 && n.link == "" {
		e = syscall.EINVAL
	}
	if e != 0 {
		return "", pathErr("readlink", name, e)
	}
	return n.link, nil
}

// EvalSymlinks replaces filepath.EvalSymlinks.
func EvalSymlinks(path string) (string, error) {
	enter()
	defer leave()
	if W == nil {
		return filepath.EvalSymlinks(path)
	}
	p := W.resolve(path)
	if _, e := W.lookup(p); e != 0 {
		return "", pathErr("lstat", path, e)
	}
	if !filepath.IsAbs(path) {
		if rel, err := filepath.Rel(W.Cwd, p); err == nil {
			return rel, nil
		}
	}
	return p, nil
}

func ReadFile(name string) ([]byte, error) {
	enter()
	defer leave()
	if W == nil {
		return os.ReadFile(name)
	}
	return W.readFile(name)
}

func WriteFile(name string, data []byte, perm fs.FileMode) error {
	enter()
	defer leave()
	if W == nil {
		return os.WriteFile(name, data, perm)
	}
	return W.writeFile(name, data, perm)
}

func Executable() (string, error) {
	enter()
	defer leave()
	if W == nil {
		return os.Executable()
	}
	seq, f := W.begin(OpExecutable, W.Exe)
	ev := &TraceEv{Seq: seq, Op: OpExecutable, Path: W.Exe, Res: "ok"}
	defer W.log(ev)
	if f != nil {
		ev.Fault = f.Kind
		e := errnoByKind[f.Kind]
		ev.Res = errnoName(e)
		return "", pathErr("readlink", "/proc/self/exe", e)
	}
	return W.Exe, nil
}

func Getwd() (string, error) {
	enter()
	defer leave()
	if W == nil {
		return os.Getwd()
	}
	seq, f := W.begin(OpGetwd, W.Cwd)
	ev := &TraceEv{Seq: seq, Op: OpGetwd, Path: W.Cwd, Res: "ok"}
	defer W.log(ev)
	if f != nil {
		ev.Fault = f.Kind
		e := errnoByKind[f.Kind]
		ev.Res = errnoName(e)
		return "", os.NewSyscallError("getwd", e)
	}
	return W.Cwd, nil
}

func Chdir(dir string) error {
	enter()
	defer leave()
	if W == nil {
		return os.Chdir(dir)
	}
	p := W.resolve(dir)
	n, e := W.lookup(p)
	if e == 0 && !n.dir {
		e = syscall.ENOTDIR
	}
	if e != 0 {
		return pathErr("chdir", dir, e)
	}
	W.Cwd = p
	return nil
}

// Abs replaces filepath.Abs (which calls os.Getwd for relative paths).
func Abs(path string) (string, error) {
	enter()
	defer leave()
	if W == nil {
		return filepath.Abs(path)
	}
	if filepath.IsAbs(path) {
		return filepath.Clean(path), nil // filepath.Abs cleans lexically, like the real one
	}
	wd, err := Getwd()
	if err != nil {
		return "", err
	}
	return filepath.Join(wd, path), nil
}

// Args replaces the variable os.Args (read-only use).
func Args() []string {
	enter()
	defer leave()
	if W == nil {
		return os.Args
	}
	return W.ArgV
}

func Exit(code int) {
	enter()
	defer leave()
	if W != nil {
		W.log(&TraceEv{Seq: W.IOSeq, Op: OpExit, Res: "os.Exit", Code: code})
		AtExit()
	}
	os.Exit(code)
}

// simulated environment: a few common variables exist and their values differ
// from one logical epoch to the next, so that a value leaking into the output
// is seen as a difference between two runs, deterministically.
var simEnvKeys = []string{"HOME", "HOSTNAME", "LANG", "LOGNAME", "PATH", "SHELL", "TERM", "TMPDIR", "TZ", "USER"}

// simPaths: the search path differs from epoch to epoch the way it differs between machines
// (a package manager's directory in front of the system directories, or not).
var simPaths = []string{"/usr/local/bin:/usr/bin:/bin", "/opt/homebrew/bin:/usr/bin:/bin", "/home/u/.nix-profile/bin:/usr/local/bin:/usr/bin:/bin", "/usr/bin:/bin"}

func simEnv(key string) (string, bool) {
	if key == "TMPDIR" {
		return TempDir(), true
	}
	if key == "PATH" {
		return simPaths[int(W.Epoch%int64(len(simPaths)))], true
	}
	for _, k := range simEnvKeys {
		if k == key {
			return fmt.Sprintf("%s-%d", strings.ToLower(key), W.Epoch%100003), true
		}
	}
	return "", false
}

func Getenv(key string) string {
	enter()
	defer leave()
	if W == nil {
		return os.Getenv(key)
	}
	v, _ := simEnv(key)
	return v
}

func LookupEnv(key string) (string, bool) {
	enter()
	defer leave()
	if W == nil {
		return os.LookupEnv(key)
	}
	return simEnv(key)
}

func Environ() []string {
	enter()
	defer leave()
	if W == nil {
		return os.Environ()
	}
	out := []string{}
	for _, k := range simEnvKeys {
		v, _ := simEnv(k)
		out = append(out, k+"="+v)
	}
	return out
}

func Getpid() int {
	enter()
	defer leave()
	if W == nil {
		return os.Getpid()
	}
	return 1000 + int(W.Epoch%30000) + W.IOSeq
}

func Hostname() (string, error) {
	enter()
	defer leave()
	if W == nil {
		return os.Hostname()
	}
	return fmt.Sprintf("simhost%d", W.Epoch%9973), nil
}

// TempDir follows $TMPDIR like the real one; the simulated TMPDIR differs from
// epoch to epoch (per-user temporary directories, CI runners) and always lies
// on the /tmp device. NewWorld creates it.
func TempDir() string {
	enter()
	defer leave()
	if W == nil {
		return os.TempDir()
	}
	return tempDirOf(W.Epoch)
}

func tempDirOf(epoch int64) string {
	if epoch%3 == 0 {
		return "/tmp"
	}
	return fmt.Sprintf("/tmp/tmp-%d", epoch%100003)
}

// UserCacheDir and UserConfigDir follow the simulated user: absolute directories that differ
// from epoch to epoch (they need not exist; MkdirAll creates them).
func UserCacheDir() (string, error) {
	enter()
	defer leave()
	if W == nil {
		return os.UserCacheDir()
	}
	return fmt.Sprintf("/home/sim-%d/.cache", W.Epoch%100003), nil
}

func UserConfigDir() (string, error) {
	enter()
	defer leave()
	if W == nil {
		return os.UserConfigDir()
	}
	return fmt.Sprintf("/home/sim-%d/.config", W.Epoch%100003), nil
}

func UserHomeDir() (string, error) {
	enter()
	defer leave()
	if W == nil {
		return os.UserHomeDir()
	}
	v, _ := simEnv("HOME")
	return "/home/" + v, nil
}

func Rename(oldpath, newpath string) error {
	enter()
	defer leave()
	if W == nil {
		return os.Rename(oldpath, newpath)
	}
	return W.rename(oldpath, newpath)
}

func Remove(name string) error {
	enter()
	defer leave()
	if W == nil {
		return os.Remove(name)
	}
	return W.remove(name, false)
}

func RemoveAll(name string) error {
	enter()
	defer leave()
	if W == nil {
		return os.RemoveAll(name)
	}
	return W.remove(name, true)
}

func Mkdir(name string, perm fs.FileMode) error {
	enter()
	defer leave()
	if W == nil {
		return os.Mkdir(name, perm)
	}
	return W.mkdir(name, false)
}

func MkdirAll(name string, perm fs.FileMode) error {
	enter()
	defer leave()
	if W == nil {
		return os.MkdirAll(name, perm)
	}
	return W.mkdir(name, true)
}

func ReadDir(name string) ([]fs.DirEntry, error) {
	enter()
	defer leave()
	if W == nil {
		return os.ReadDir(name)
	}
	return W.readDir(name)
}

func Chmod(name string, mode fs.FileMode) error {
	enter()
	defer leave()
	if W == nil {
		return os.Chmod(name, mode)
	}
	p, ev, err := W.simple(OpChmod, name)
	defer W.log(ev)
	if err != nil {
		return err
	}
	n, e := W.lookup(p)
	ev.Res = errnoName(e)
	if e != 0 {
		return pathErr("chmod", name, e)
	}
	n.mode = n.mode.Type() | mode.Perm()
	return nil
}

func Truncate(name string, size int64) error {
	enter()
	defer leave()
	if W == nil {
		return os.Truncate(name, size)
	}
	data, err := W.readFile(name)
	if err != nil {
		return err
	}
	for int64(len(data)) < size {
		data = append(data, 0)
	}
	return W.writeFile(name, data[:size], 0o644)
}

// ---------------------------------------------------------------- *os.File

// File replaces os.File for files opened through the seams.
type File struct {
	real   *os.File
	w      *World
	n      *node
	name   string // as given
	path   string // resolved
	off    int
	rd, wr bool
	app    bool
	closed bool
}

func Open(name string) (*File, error) { return OpenFile(name, os.O_RDONLY, 0) }

func Create(name string) (*File, error) {
	enter()
	defer leave()
	return OpenFile(name, os.O_RDWR|os.O_CREATE|os.O_TRUNC, 0o666)
}

func OpenFile(name string, flag int, perm fs.FileMode) (*File, error) {
	enter()
	defer leave()
	if W == nil {
		f, err := os.OpenFile(name, flag, perm)
		if err != nil {
			return nil, err
		}
		return &File{real: f, name: name}, nil
	}
	w := W
	p := w.resolve(name)
	seq, ft := w.begin(OpOpen, p)
	ev := &TraceEv{Seq: seq, Op: OpOpen, Path: p, Code: flag}
	defer w.log(ev)
	if ft != nil {
		ev.Fault = ft.Kind
		e := errnoByKind[ft.Kind]
		ev.Res = errnoName(e)
		return nil, pathErr("open", name, e)
	}
	acc := flag & (os.O_RDONLY | os.O_WRONLY | os.O_RDWR)
	wr := acc == os.O_WRONLY || acc == os.O_RDWR
	rd := acc == os.O_RDONLY || acc == os.O_RDWR
	n, e := w.lookup(p)
	switch {
	case e == 0 && flag&os.O_CREATE != 0 && flag&os.O_EXCL != 0:
		e = syscall.EEXIST
	case e == 0 && n.dir && wr:
		e = syscall.EISDIR
	case e == syscall.ENOENT && flag&os.O_CREATE != 0:
		parent, e2 := w.lookup(filepath.Dir(p))
		if e2 != 0 {
			e = e2
		} else if !parent.dir {
			e = syscall.ENOTDIR
		} else {
			n = &node{mode: perm &^ 0o022}
			w.fs[p] = n
			e = 0
		}
	}
	ev.Res = errnoName(e)
	if e != 0 {
		return nil, pathErr("open", name, e)
	}
	if wr && flag&os.O_TRUNC != 0 && !n.dir {
		n.data = nil
		ev.Data = Bytes{}
	}
	return &File{w: w, n: n, name: name, path: p, rd: rd, wr: wr, app: flag&os.O_APPEND != 0}, nil
}

func CreateTemp(dir, pattern string) (*File, error) {
	enter()
	defer leave()
	if W == nil {
		f, err := os.CreateTemp(dir, pattern)
		if err != nil {
			return nil, err
		}
		return &File{real: f, name: f.Name()}, nil
	}
	if dir == "" {
		dir = TempDir()
	}
	prefix, suffix := pattern, ""
	for i := len(pattern) - 1; i >= 0; i-- {
		if pattern[i] == '*' {
			prefix, suffix = pattern[:i], pattern[i+1:]
			break
		}
	}
	for try := 0; try < 10000; try++ {
		W.tempN++
		name := filepath.Join(dir, fmt.Sprintf("%s%09d%s", prefix, W.tempN*7919+int(W.MapSeed%1000), suffix))
		f, err := OpenFile(name, os.O_RDWR|os.O_CREATE|os.O_EXCL, 0o600)
		if err != nil && errors.Is(err, fs.ErrExist) {
			continue
		}
		return f, err
	}
	return nil, pathErr("createtemp", dir, syscall.EEXIST)
}

func MkdirTemp(dir, pattern string) (string, error) {
	enter()
	defer leave()
	if W == nil {
		return os.MkdirTemp(dir, pattern)
	}
	if dir == "" {
		dir = TempDir()
	}
	W.tempN++
	name := filepath.Join(dir, fmt.Sprintf("%s%09d", pattern, W.tempN*7919))
	return name, MkdirAll(name, 0o700)
}

func (f *File) Name() string {
	enter()
	defer leave()
	if f.real != nil {
		return f.real.Name()
	}
	return f.name
}

func (f *File) Read(b []byte) (int, error) {
	enter()
	defer leave()
	if f.real != nil {
		return f.real.Read(b)
	}
	if f.closed {
		return 0, pathErr("read", f.name, syscall.EBADF)
	}
	if !f.rd {
		return 0, pathErr("read", f.name, syscall.EBADF)
	}
	if f.n.dir {
		return 0, pathErr("read", f.name, syscall.EISDIR)
	}
	seq, ft := f.w.begin(OpFRead, f.path)
	ev := &TraceEv{Seq: seq, Op: OpFRead, Path: f.path, Res: "ok"}
	defer f.w.log(ev)
	if ft != nil && ft.Kind == KEIO {
		ev.Fault, ev.Res = ft.Kind, KEIO
		return 0, pathErr("read", f.name, syscall.EIO)
	}
	if f.off >= len(f.n.data) {
		ev.Res = "EOF"
		return 0, io.EOF
	}
	k := copy(b, f.n.data[f.off:])
	if ft != nil && ft.Kind == KTORN && k > 1 {
		k = 1 + ft.N%(k-1)
		ev.Fault = ft.Kind
	}
	f.off += k
	ev.N = k
	return k, nil
}

func (f *File) Write(b []byte) (int, error) {
	enter()
	defer leave()
	if f.real != nil {
		return f.real.Write(b)
	}
	if f.closed || !f.wr {
		return 0, pathErr("write", f.name, syscall.EBADF)
	}
	seq, ft := f.w.begin(OpFWrite, f.path)
	ev := &TraceEv{Seq: seq, Op: OpFWrite, Path: f.path, Res: "ok"}
	defer f.w.log(ev)
	k := len(b)
	var err error
	if ft != nil {
		ev.Fault = ft.Kind
		switch ft.Kind {
		case KSHORT:
			if ft.N < k {
				k = ft.N
			}
			err = pathErr("write", f.name, syscall.ENOSPC)
			ev.Res = KENOSPC
		default:
			e := errnoByKind[ft.Kind]
			ev.Res = errnoName(e)
			return 0, pathErr("write", f.name, e)
		}
	}
	if f.app {
		f.off = len(f.n.data)
	}
	for len(f.n.data) < f.off {
		f.n.data = append(f.n.data, 0)
	}
	f.n.data = append(f.n.data[:f.off], append(append([]byte{}, b[:k]...), tail(f.n.data, f.off+k)...)...)
	f.off += k
	f.n.mt = f.w.Epoch + int64(f.w.IOSeq)
	ev.N = k
	ev.Data = append(Bytes{}, f.n.data...)
	ev.Digest = digest(f.n.data)
	return k, err
}

func tail(b []byte, from int) []byte {
	if from >= len(b) {
		return nil
	}
	return append([]byte{}, b[from:]...)
}

func (f *File) WriteString(s string) (int, error) { return f.Write([]byte(s)) }

func (f *File) Close() error {
	enter()
	defer leave()
	if f.real != nil {
		return f.real.Close()
	}
	if f.closed {
		return &fs.PathError{Op: "close", Path: f.name, Err: fs.ErrClosed}
	}
	f.closed = true
	seq, ft := f.w.begin(OpFClose, f.path)
	ev := &TraceEv{Seq: seq, Op: OpFClose, Path: f.path, Res: "ok"}
	defer f.w.log(ev)
	if ft != nil && f.wr {
		ev.Fault = ft.Kind
		e := errnoByKind[ft.Kind]
		ev.Res = errnoName(e)
		return pathErr("close", f.name, e)
	}
	return nil
}

func (f *File) Sync() error {
	enter()
	defer leave()
	if f.real != nil {
		return f.real.Sync()
	}
	return nil
}

func (f *File) Stat() (fs.FileInfo, error) {
	enter()
	defer leave()
	if f.real != nil {
		return f.real.Stat()
	}
	return fileInfo{name: filepath.Base(f.path), size: int64(len(f.n.data)), mode: f.n.mode, mt: time.Unix(f.n.mt, 0).UTC(), id: f.n}, nil
}

func (f *File) Seek(offset int64, whence int) (int64, error) {
	enter()
	defer leave()
	if f.real != nil {
		return f.real.Seek(offset, whence)
	}
	switch whence {
	case io.SeekStart:
		f.off = int(offset)
	case io.SeekCurrent:
		f.off += int(offset)
	case io.SeekEnd:
		f.off = len(f.n.data) + int(offset)
	}
	if f.off < 0 {
		f.off = 0
		return 0, pathErr("seek", f.name, syscall.EINVAL)
	}
	return int64(f.off), nil
}

func (f *File) Truncate(size int64) error {
	enter()
	defer leave()
	if f.real != nil {
		return f.real.Truncate(size)
	}
	for int64(len(f.n.data)) < size {
		f.n.data = append(f.n.data, 0)
	}
	f.n.data = f.n.data[:size]
	return nil
}

func (f *File) Chmod(mode fs.FileMode) error {
	enter()
	defer leave()
	if f.real != nil {
		return f.real.Chmod(mode)
	}
	f.n.mode = f.n.mode.Type() | mode.Perm()
	return nil
}

func (f *File) ReadDir(n int) ([]fs.DirEntry, error) {
	enter()
	defer leave()
	if f.real != nil {
		return f.real.ReadDir(n)
	}
	return f.w.readDirRaw(f.path)
}

func (f *File) Readdir(n int) ([]fs.FileInfo, error) {
	enter()
	defer leave()
	if f.real != nil {
		return f.real.Readdir(n)
	}
	es, err := f.w.readDirRaw(f.path)
	out := []fs.FileInfo{}
	for _, e := range es {
		fi, _ := e.Info()
		out = append(out, fi)
	}
	return out, err
}

func (f *File) Readdirnames(n int) ([]string, error) {
	enter()
	defer leave()
	if f.real != nil {
		return f.real.Readdirnames(n)
	}
	es, err := f.w.readDirRaw(f.path)
	out := []string{}
	for _, e := range es {
		out = append(out, e.Name())
	}
	return out, err
}

// ---------------------------------------------------------------- maps

// MapSeqAt replaces `range m` over a map: the iteration order is decided by
// the world (canonical = sorted by formatted key), never by the Go runtime.
func MapSeqAt[M ~map[K]V, K comparable, V any](site string, m M) iter.Seq2[K, V] {
	return func(yield func(K, V) bool) {
		keys := OrderedKeys(site, m)
		for _, k := range keys {
			v, ok := m[k]
			if !ok {
				continue // deleted during the loop
			}
			if !yield(k, v) {
				return
			}
		}
	}
}

type keyed[K any] struct {
	s string
	k K
}

// OrderedKeys returns the keys of m in the order the world dictates.
func OrderedKeys[M ~map[K]V, K comparable, V any](site string, m M) []K {
	ks := make([]keyed[K], 0, len(m))
	for k := range m {
		ks = append(ks, keyed[K]{fmt.Sprintf("%v", k), k})
	}
	sort.SliceStable(ks, func(i, j int) bool { return ks[i].s < ks[j].s })
	out := make([]K, len(ks))
	for i := range ks {
		out[i] = ks[i].k
	}
	if W == nil || len(out) < 2 {
		if W != nil {
			W.MapRanges++
		}
		return out
	}
	w := W
	w.MapRanges++
	switch w.MapMode {
	case "reversed":
		for i, j := 0, len(out)-1; i < j; i, j = i+1, j-1 {
			out[i], out[j] = out[j], out[i]
		}
	case "rotate":
		r := int((w.MapSeed + uint64(w.MapRanges)) % uint64(len(out)))
		out = append(out[r:], out[:r]...)
	case "shuffle":
		s := w.MapSeed ^ (uint64(w.MapRanges) * 0x9E3779B97F4A7C15)
		for i := len(out) - 1; i > 0; i-- {
			s = splitmix(s)
			j := int(s % uint64(i+1))
			out[i], out[j] = out[j], out[i]
		}
	}
	non := false
	for i := range out {
		if fmt.Sprintf("%v", out[i]) != ks[i].s {
			non = true
			break
		}
	}
	if non {
		w.MapNonCanonical++
	}
	w.log(&TraceEv{Seq: w.IOSeq, Op: OpMapRange, Path: site, N: len(out), Res: w.MapMode, Digest: digest([]byte(fmt.Sprintf("%v", out)))})
	return out
}

func splitmix(x uint64) uint64 {
	x += 0x9E3779B97F4A7C15
	z := x
	z = (z ^ (z >> 30)) * 0xBF58476D1CE4E5B9
	z = (z ^ (z >> 27)) * 0x94D049BB133111EB
	return z ^ (z >> 31)
}

// MapDeleteFunc replaces maps.DeleteFunc with a deterministic visiting order.
func MapDeleteFunc[M ~map[K]V, K comparable, V any](m M, del func(K, V) bool) {
	for _, k := range OrderedKeys("maps.DeleteFunc", m) {
		if v, ok := m[k]; ok && del(k, v) {
			delete(m, k)
		}
	}
}

func MapKeys[M ~map[K]V, K comparable, V any](m M) iter.Seq[K] {
	return func(yield func(K) bool) {
		for _, k := range OrderedKeys("maps.Keys", m) {
			if !yield(k) {
				return
			}
		}
	}
}

func MapValues[M ~map[K]V, K comparable, V any](m M) iter.Seq[V] {
	return func(yield func(V) bool) {
		for _, k := range OrderedKeys("maps.Values", m) {
			if !yield(m[k]) {
				return
			}
		}
	}
}

func MapAll[M ~map[K]V, K comparable, V any](m M) iter.Seq2[K, V] {
	return MapSeqAt("maps.All", m)
}

// ---------------------------------------------------------------- steps

var (
	depthBuf []uintptr
	depthMu  sync.Mutex
)

// Tick is inserted at the top of every function and loop body. It is safe to call from
// several goroutines (a change under test may start some): the counter is atomic.
func Tick() {
	w := W
	if w == nil {
		return
	}
	t := atomic.AddInt64(&w.Ticks, 1)
	if t&1023 == 0 {
		if w.B.Ticks > 0 && t-w.callT0 > w.B.Ticks {
			panic(Budget{"ticks", t - w.callT0})
		}
		if w.B.Depth > 0 {
			depthMu.Lock()
			if depthBuf == nil {
				depthBuf = make([]uintptr, w.B.Depth+64)
			}
			d := runtime.Callers(0, depthBuf)
			if d > w.MaxDepth {
				w.MaxDepth = d
			}
			depthMu.Unlock()
			if d > w.B.Depth {
				panic(Budget{"depth", int64(d)})
			}
		}
	}
}

// enter/leave serialise the seams: the world is one data structure, and code under test may
// call the seams from several goroutines. The lock is re-entrant (seams call each other).
var (
	seamMu    sync.Mutex
	seamOwner atomic.Int64
	seamDepth int
)

func goid() int64 {
	var buf [64]byte
	n := runtime.Stack(buf[:], false)
	// "goroutine 123 ["
	var id int64
	for _, c := range buf[10:n] {
		if c < '0' || c > '9' {
			break
		}
		id = id*10 + int64(c-'0')
	}
	return id
}

func enter() {
	if W == nil {
		return
	}
	id := goid()
	if seamOwner.Load() == id {
		seamDepth++
		return
	}
	seamMu.Lock()
	seamOwner.Store(id)
	seamDepth = 1
}

func leave() {
	if W == nil && seamOwner.Load() == 0 {
		return
	}
	if seamOwner.Load() != goid() {
		return
	}
	seamDepth--
	if seamDepth == 0 {
		seamOwner.Store(0)
		seamMu.Unlock()
	}
}

// ---------------------------------------------------------------- time, rand

func Now() time.Time {
	enter()
	defer leave()
	if W == nil {
		return time.Now()
	}
	W.log(&TraceEv{Seq: W.IOSeq, Op: OpClock})
	return W.now()
}

func Since(t time.Time) time.Duration { return Now().Sub(t) }

// Rand returns the next value of the world's pseudo random stream (differs
// per world epoch, so leaking it into output is caught deterministically).
func Rand() uint64 {
	enter()
	defer leave()
	if W == nil {
		return uint64(time.Now().UnixNano())
	}
	W.MapSeed = splitmix(W.MapSeed ^ uint64(W.Epoch))
	return W.MapSeed
}

func RandInt() int            { return int(Rand() >> 1) }
func RandIntn(n int) int      { return int(Rand() % uint64(n)) }
func RandInt63() int64        { return int64(Rand() >> 1) }
func RandInt31() int32        { return int32(Rand() >> 33) }
func RandUint32() uint32      { return uint32(Rand() >> 32) }
func RandUint64() uint64      { return Rand() }
func RandFloat64() float64    { return float64(Rand()>>11) / (1 << 53) }
func RandInt63n(n int64) int64 { return int64(Rand() % uint64(n)) }
func RandInt31n(n int32) int32 { return int32(Rand() % uint64(n)) }
func RandRead(b []byte) (int, error) {
	enter()
	defer leave()
	for i := range b {
		b[i] = byte(Rand())
	}
	return len(b), nil
}

// ---------------------------------------------------------------- exit hook

// AtExitHook is set by the process-level driver (tsh_sim) in init.
var AtExitHook func()

var atExitDone bool

// AtExit is deferred at the top of main.main and called by Exit.
func AtExit() {
	enter()
	defer leave()
	if atExitDone {
		return
	}
	atExitDone = true
	if AtExitHook != nil {
		AtExitHook()
	}
}

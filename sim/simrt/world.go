package simrt

import (
	"crypto/sha256"
	"encoding/hex"
	"fmt"
	"io/fs"
	"os"
	"path/filepath"
	"sort"
	"strings"
	"syscall"
	"time"
)

type node struct {
	dir  bool
	data []byte
	mode fs.FileMode
	link string // non-empty: a symbolic link to this (absolute or relative) target
	mt   int64  // modification time (logical seconds): set when the node is created or written, like the kernel does
	ino  uint64 // assigned on first use; two paths that hold the same *node are hard links of one file
}

// World is one simulated process environment. W == nil means "not simulating":
// every entry point then falls through to the real operating system.
type World struct {
	fs      map[string]*node
	Cwd     string
	Exe     string
	ArgV    []string
	MapMode string
	MapSeed uint64
	Faults  []*Fault
	Events  []*Event
	Epoch   int64
	B       Budgets

	IOSeq    int
	Ticks    int64
	MaxDepth int
	Trace    []TraceEv
	KeepData bool              // journal full data of mutating ops in the trace
	Sink     func(ev *TraceEv) // called for every trace event (journal)
	tempN    int
	callIO0  int   // IOSeq at start of the current call
	callT0   int64 // Ticks at start of the current call
	MapNonCanonical int
	MapRanges       int
	lastImg         map[string]string
	DirOrders       int      // directory listings delivered in a simulated (non-sorted) order
	Devices         []string // path prefixes that are separate file systems (rename across them is EXDEV)
}

var W *World

// Budget is the sentinel panic raised when a budget is exhausted.
type Budget struct {
	Kind  string
	Value int64
}

func (b Budget) Error() string { return fmt.Sprintf("simrt: %s budget exhausted (%d)", b.Kind, b.Value) }

// NewWorld builds a world from a spec. Parent directories are created
// implicitly for every listed path.
func NewWorld(spec *WorldSpec) *World {
	w := &World{
		fs:      map[string]*node{"/": {dir: true, mode: fs.ModeDir | 0o755}},
		Cwd:     spec.Cwd,
		Exe:     spec.Exe,
		ArgV:    append([]string(nil), spec.Args...),
		MapMode: spec.MapMode,
		MapSeed: spec.MapSeed,
		Epoch:   spec.Epoch,
		B:       DefaultBudgets(),
		Devices: append([]string(nil), spec.Devices...),
	}
	if spec.Budgets != nil {
		w.B = *spec.Budgets
	}
	if w.Cwd == "" {
		w.Cwd = "/"
	}
	for _, f := range spec.Faults {
		c := *f
		c.seen, c.Fired = 0, 0
		w.Faults = append(w.Faults, &c)
	}
	for _, e := range spec.Events {
		c := *e
		c.Done = false
		w.Events = append(w.Events, &c)
	}
	for _, f := range spec.Files {
		w.put(f.Path, f.Dir, f.Data)
		if f.Link != "" {
			w.fs[filepath.Clean(f.Path)] = &node{link: f.Link, mode: fs.ModeSymlink | 0o777}
		}
		if f.Age != 0 {
			w.fs[filepath.Clean(f.Path)].mt = w.Epoch - f.Age
		}
	}
	for _, f := range spec.Files {
		if f.HardLink != "" {
			w.PutHardLink(f.Path, f.HardLink)
		}
	}
	w.put(tempDirOf(w.Epoch), true, nil)
	return w
}

// PutHardLink makes p another name of the regular file at target (same node).
func (w *World) PutHardLink(p, target string) {
	p, target = filepath.Clean(p), filepath.Clean(target)
	if n, ok := w.fs[target]; ok && !n.dir && n.link == "" && p != target {
		w.Del(p)
		w.mkparents(p)
		w.fs[p] = n
	}
}

var inoCounter uint64 = 1000

func inoOf(n *node) uint64 {
	if n.ino == 0 {
		inoCounter++
		n.ino = inoCounter
	}
	return n.ino
}

func (w *World) mkparents(p string) {
	d := filepath.Dir(p)
	if d == p {
		return
	}
	if _, ok := w.fs[d]; !ok {
		w.mkparents(d)
		w.fs[d] = &node{dir: true, mode: fs.ModeDir | 0o755}
	}
}

func (w *World) put(p string, dir bool, data []byte) {
	p = filepath.Clean(p)
	w.mkparents(p)
	if dir {
		w.fs[p] = &node{dir: true, mode: fs.ModeDir | 0o755, mt: w.Epoch + int64(w.IOSeq)}
	} else {
		w.fs[p] = &node{data: append([]byte(nil), data...), mode: 0o644, mt: w.Epoch + int64(w.IOSeq)}
	}
}

// Put / Del / Move mutate the world from the outside (the harness, between
// calls). They are not I/O calls of the code under test.
func (w *World) Put(p string, dir bool, data []byte) { w.put(p, dir, data) }

// PutLink makes p a symbolic link to target (replacing whatever p was).
func (w *World) PutLink(p, target string) {
	p = filepath.Clean(p)
	w.mkparents(p)
	w.fs[p] = &node{link: target, mode: fs.ModeSymlink | 0o777, mt: w.Epoch + int64(w.IOSeq)}
}

// PutKeepMtime rewrites a file but keeps its modification time.
func (w *World) PutKeepMtime(p string, data []byte) {
	old, ok := w.fs[filepath.Clean(p)]
	w.put(p, false, data)
	if ok {
		w.fs[filepath.Clean(p)].mt = old.mt
	}
}

func (w *World) Del(p string) {
	p = filepath.Clean(p)
	for _, k := range w.sortedPaths() {
		if k == p || strings.HasPrefix(k, p+"/") {
			delete(w.fs, k)
		}
	}
}

func (w *World) Move(from, to string) {
	from, to = filepath.Clean(from), filepath.Clean(to)
	w.mkparents(to)
	for _, k := range w.sortedPaths() {
		if k == from || strings.HasPrefix(k, from+"/") {
			n := w.fs[k]
			delete(w.fs, k)
			w.fs[to+k[len(from):]] = n
		}
	}
}

func (w *World) sortedPaths() []string {
	ks := make([]string, 0, len(w.fs))
	for k := range w.fs {
		ks = append(ks, k)
	}
	sort.Strings(ks)
	return ks
}

// Image returns the current file-system image in sorted order.
func (w *World) Image() []FileSpec {
	out := []FileSpec{}
	seen := map[*node]string{}
	for _, k := range w.sortedPaths() {
		if k == "/" {
			continue
		}
		n := w.fs[k]
		if first, ok := seen[n]; ok && !n.dir && n.link == "" {
			out = append(out, FileSpec{Path: k, HardLink: first, Data: append([]byte(nil), n.data...)})
			continue
		}
		seen[n] = k
		out = append(out, FileSpec{Path: k, Dir: n.dir, Data: append([]byte(nil), n.data...), Link: n.link})
	}
	return out
}

// resolve turns a name into a canonical absolute path the way the kernel
// walks it: "." and ".." are interpreted against directories that must exist
// (no lexical cleaning: "missing/../a" is ENOENT, "file/../a" is ENOTDIR).
// When the walk fails at an intermediate component, the returned path lies
// beneath that component, so that lookup reports the same errno.
func (w *World) resolve(name string) string { return w.walk(name, true, 0) }

// ResolvePath is resolve for the orchestrator (no I/O is accounted): the path the kernel would
// reach for name in this world, relative names against Cwd.
func (w *World) ResolvePath(name string) string { return w.walk(name, true, 0) }

// resolveNoFollow is resolve for operations that act on a symbolic link itself
// (lstat, rename, remove, readlink): the last component is not followed.
func (w *World) resolveNoFollow(name string) string { return w.walk(name, false, 0) }

func (w *World) walk(name string, followFinal bool, hops int) string {
	if name == "" {
		return "/\x00enoent/x" // ENOENT (also for the parent, so nothing can be created there)
	}
	if hops > 40 {
		return "/\x00eloop/x"
	}
	cur := "/"
	if !filepath.IsAbs(name) {
		cur = filepath.Clean(w.Cwd)
	}
	parts := strings.Split(name, "/")
	for _, c := range parts {
		if len(c) > 255 {
			return "/\x00enametoolong/x" // NAME_MAX
		}
	}
	if len(name) > 4095 {
		return "/\x00enametoolong/x" // PATH_MAX
	}
	last := -1
	for i, c := range parts {
		if c != "" && c != "." {
			last = i
		}
	}
	for i, c := range parts {
		if c == "" || c == "." {
			continue
		}
		n, ok := w.fs[cur]
		if !ok || !n.dir {
			// fails here: keep the remaining components beneath cur
			tailParts := []string{}
			for _, t := range parts[i:] {
				if t != "" && t != "." && t != ".." {
					tailParts = append(tailParts, t)
				}
			}
			if len(tailParts) == 0 {
				tailParts = []string{"x"}
			}
			return cur + "/" + strings.Join(tailParts, "/")
		}
		if c == ".." {
			cur = filepath.Dir(cur)
			continue
		}
		next := cur + "/" + c
		if cur == "/" {
			next = "/" + c
		}
		if ln, ok := w.fs[next]; ok && ln.link != "" && (i != last || followFinal || strings.HasSuffix(name, "/")) {
			// substitute the link target and continue with the remaining components
			target := ln.link
			if !filepath.IsAbs(target) {
				target = cur + "/" + target
			}
			rest := strings.Join(parts[i+1:], "/")
			if rest != "" {
				target += "/" + rest
			} else if strings.HasSuffix(name, "/") {
				target += "/"
			}
			return w.walk(target, followFinal, hops+1)
		}
		cur = next
	}
	if strings.HasSuffix(name, "/") && cur != "/" {
		if n, ok := w.fs[cur]; ok && !n.dir {
			return cur + "/." // a trailing slash demands a directory: ENOTDIR
		}
	}
	return cur
}

// lookup walks the path like the kernel would.
func (w *World) lookup(p string) (*node, syscall.Errno) {
	if strings.HasPrefix(p, "/\x00eloop") {
		return nil, syscall.ELOOP
	}
	if strings.HasPrefix(p, "/\x00enametoolong") {
		return nil, syscall.ENAMETOOLONG
	}
	if p == "/" {
		return w.fs["/"], 0
	}
	parts := strings.Split(strings.TrimPrefix(p, "/"), "/")
	cur := ""
	for i, part := range parts {
		cur = cur + "/" + part
		n, ok := w.fs[cur]
		if !ok {
			return nil, syscall.ENOENT
		}
		if i < len(parts)-1 && !n.dir {
			return nil, syscall.ENOTDIR
		}
		if i == len(parts)-1 {
			return n, 0
		}
	}
	return nil, syscall.ENOENT
}

// deviceOf returns the index of the longest device prefix containing p (-1: the root file system).
func (w *World) deviceOf(p string) int {
	best, bestLen := -1, -1
	for i, d := range w.Devices {
		if (p == d || strings.HasPrefix(p, d+"/")) && len(d) > bestLen {
			best, bestLen = i, len(d)
		}
	}
	return best
}

func digest(b []byte) string {
	h := sha256.Sum256(b)
	return hex.EncodeToString(h[:6])
}

var errnoByKind = map[string]syscall.Errno{
	KENOENT: syscall.ENOENT, KEACCES: syscall.EACCES, KEIO: syscall.EIO, KEISDIR: syscall.EISDIR,
	KENOTDIR: syscall.ENOTDIR, KELOOP: syscall.ELOOP, KENOSPC: syscall.ENOSPC, KEMFILE: syscall.EMFILE,
}

func errnoName(e syscall.Errno) string {
	switch e {
	case 0:
		return "ok"
	case syscall.ENOENT:
		return KENOENT
	case syscall.EACCES:
		return KEACCES
	case syscall.EIO:
		return KEIO
	case syscall.EISDIR:
		return KEISDIR
	case syscall.ENOTDIR:
		return KENOTDIR
	case syscall.ELOOP:
		return KELOOP
	case syscall.ENOSPC:
		return KENOSPC
	case syscall.EMFILE:
		return KEMFILE
	case syscall.EEXIST:
		return "EEXIST"
	case syscall.ENOTEMPTY:
		return "ENOTEMPTY"
	case syscall.EINVAL:
		return "EINVAL"
	case syscall.EBADF:
		return "EBADF"
	case syscall.EXDEV:
		return "EXDEV"
	case syscall.ENAMETOOLONG:
		return "ENAMETOOLONG"
	}
	return fmt.Sprintf("errno%d", int(e))
}

// begin allocates the next I/O sequence number, applies due world events,
// checks the I/O budget and returns the fault that strikes this call, if any.
func (w *World) begin(op, path string) (int, *Fault) {
	w.IOSeq++
	seq := w.IOSeq
	if w.B.IO > 0 && seq-w.callIO0 > w.B.IO {
		panic(Budget{"io", int64(seq - w.callIO0)})
	}
	for _, e := range w.Events {
		if !e.Done && e.AtSeq <= seq {
			e.Done = true
			switch e.Kind {
			case "write":
				w.put(e.Path, false, e.Data)
			case "remove":
				w.Del(e.Path)
			}
			w.log(&TraceEv{Seq: seq, Op: OpEvent, Path: e.Path, Res: e.Kind, N: len(e.Data), Digest: digest(e.Data)})
		}
	}
	var hit *Fault
	for _, f := range w.Faults {
		match := false
		if f.Seq > 0 {
			match = f.Seq == seq && (f.Op == "" || f.Op == op)
		} else if f.Seq <= 0 && f.Op == op && strings.HasSuffix(path, f.PathSuffix) {
			if f.seen == f.Nth {
				match = true
			}
			f.seen++
		}
		if match && hit == nil && faultApplies(op, f.Kind) {
			hit = f
			f.Fired++
		}
	}
	return seq, hit
}

// faultApplies says which fault kinds make sense for which operation.
func faultApplies(op, kind string) bool {
	switch op {
	case OpStat:
		switch kind {
		case KENOENT, KEACCES, KEIO, KELOOP, KENOTDIR, KISDIR:
			return true
		}
	case OpRead:
		switch kind {
		case KENOENT, KEACCES, KEIO, KEISDIR, KELOOP, KEMFILE, KTORN, KFLIP, KEMPTY, KMUTATE:
			return true
		}
	case OpWOpen, OpOpen:
		switch kind {
		case KENOENT, KEACCES, KEIO, KEISDIR, KENOSPC, KEMFILE, KENOTDIR:
			return true
		}
	case OpWData, OpFWrite:
		switch kind {
		case KEIO, KENOSPC, KSHORT:
			return true
		}
	case OpFRead:
		switch kind {
		case KEIO, KTORN:
			return true
		}
	case OpWClose, OpFClose:
		switch kind {
		case KEIO, KENOSPC:
			return true
		}
	case OpExecutable, OpGetwd:
		switch kind {
		case KENOENT, KEACCES, KEIO:
			return true
		}
	case OpRename, OpRemove, OpMkdir, OpReadDir, OpChmod:
		switch kind {
		case KENOENT, KEACCES, KEIO, KENOSPC:
			return true
		}
	}
	return false
}

// ApplicableFaults lists the kinds faultApplies accepts for op (sorted).
func ApplicableFaults(op string) []string {
	all := []string{KEACCES, KEIO, KEISDIR, KELOOP, KEMFILE, KEMPTY, KENOENT, KENOSPC, KENOTDIR, KFLIP, KISDIR, KMUTATE, KSHORT, KTORN}
	out := []string{}
	for _, k := range all {
		if faultApplies(op, k) {
			out = append(out, k)
		}
	}
	return out
}

func (w *World) log(ev *TraceEv) {
	if !w.KeepData {
		ev.Data = nil
	}
	w.Trace = append(w.Trace, *ev)
	if w.Sink != nil {
		w.Sink(ev)
		w.syncDeltas(ev.Seq)
	}
}

// syncDeltas journals every path whose state differs from the last journalled
// state (only in process mode, where the final image must be reconstructible
// however the process ends).
func (w *World) syncDeltas(seq int) {
	cur := map[string]string{}
	for _, k := range w.sortedPaths() {
		n := w.fs[k]
		if n.dir {
			cur[k] = "d"
		} else if n.link != "" {
			cur[k] = "l" + n.link
		} else {
			cur[k] = "f" + string(n.data)
		}
	}
	keys := map[string]bool{}
	for k := range cur {
		keys[k] = true
	}
	for k := range w.lastImg {
		keys[k] = true
	}
	ks := make([]string, 0, len(keys))
	for k := range keys {
		ks = append(ks, k)
	}
	sort.Strings(ks)
	for _, k := range ks {
		a, okA := w.lastImg[k]
		b, okB := cur[k]
		if okA == okB && a == b {
			continue
		}
		d := &TraceEv{Seq: seq, Op: OpDelta, Path: k}
		switch {
		case !okB:
			d.Res = "absent"
		case b == "d":
			d.Res = "dir"
		case b[0] == 'l':
			d.Res = "link"
			d.Data = Bytes(b[1:])
		default:
			d.Res = "file"
			d.Data = Bytes(b[1:])
			d.N = len(b) - 1
		}
		w.Sink(d)
	}
	w.lastImg = cur
}

// TraceDigest is a digest of the whole trace (used by determinism checks).
func (w *World) TraceDigest() string {
	h := sha256.New()
	for _, e := range w.Trace {
		fmt.Fprintf(h, "%d|%s|%s|%s|%s|%d|%s|%d\n", e.Seq, e.Op, e.Path, e.Res, e.Fault, e.N, e.Digest, e.Code)
	}
	return hex.EncodeToString(h.Sum(nil)[:8])
}

// BeginCall resets the per-call budget baselines.
func (w *World) BeginCall() {
	w.callIO0 = w.IOSeq
	w.callT0 = w.Ticks
}

func (w *World) CallTicks() int64 { return w.Ticks - w.callT0 }
func (w *World) CallIO() int      { return w.IOSeq - w.callIO0 }

func pathErr(op, path string, e syscall.Errno) error {
	return &fs.PathError{Op: op, Path: path, Err: e}
}

type fileInfo struct {
	name string
	size int64
	mode fs.FileMode
	mt   time.Time
	id   *node // identity of the file (nil for synthetic entries): what os.SameFile compares
}

func (fi fileInfo) Name() string       { return fi.name }
func (fi fileInfo) Size() int64        { return fi.size }
func (fi fileInfo) Mode() fs.FileMode  { return fi.mode }
func (fi fileInfo) ModTime() time.Time { return fi.mt }
func (fi fileInfo) IsDir() bool        { return fi.mode.IsDir() }
func (fi fileInfo) Sys() any {
	if fi.id == nil {
		return nil
	}
	return &syscall.Stat_t{Ino: inoOf(fi.id), Dev: 2049, Nlink: 1, Size: fi.size}
}

func (w *World) now() time.Time {
	return time.Unix(w.Epoch+int64(w.IOSeq), int64(w.Ticks%1_000_000_000)).UTC()
}

func (w *World) stat(name string) (fs.FileInfo, error) {
	p := w.resolve(name)
	seq, f := w.begin(OpStat, p)
	ev := &TraceEv{Seq: seq, Op: OpStat, Path: p}
	defer w.log(ev)
	if f != nil {
		ev.Fault = f.Kind
		if f.Kind == KISDIR {
			ev.Res = "ok"
			return fileInfo{name: filepath.Base(p), mode: fs.ModeDir | 0o755, mt: w.now()}, nil
		}
		e := errnoByKind[f.Kind]
		ev.Res = errnoName(e)
		return nil, pathErr("stat", name, e)
	}
	n, e := w.lookup(p)
	ev.Res = errnoName(e)
	if e != 0 {
		return nil, pathErr("stat", name, e)
	}
	ev.N = len(n.data)
	if n.dir {
		ev.Digest = "dir"
	}
	return fileInfo{name: filepath.Base(p), size: int64(len(n.data)), mode: n.mode, mt: time.Unix(n.mt, 0).UTC(), id: n}, nil
}

func (w *World) readFile(name string) ([]byte, error) {
	p := w.resolve(name)
	seq, f := w.begin(OpRead, p)
	ev := &TraceEv{Seq: seq, Op: OpRead, Path: p}
	defer w.log(ev)
	if f != nil {
		ev.Fault = f.Kind
		if e, ok := errnoByKind[f.Kind]; ok {
			ev.Res = errnoName(e)
			op := "open"
			if e == syscall.EIO || e == syscall.EISDIR {
				op = "read"
			}
			return nil, pathErr(op, name, e)
		}
	}
	n, e := w.lookup(p)
	if e == 0 && n.dir {
		e = syscall.EISDIR
	}
	ev.Res = errnoName(e)
	if e != 0 {
		op := "open"
		if e == syscall.EISDIR {
			op = "read"
		}
		return nil, pathErr(op, name, e)
	}
	data := append([]byte{}, n.data...)
	if f != nil {
		switch f.Kind {
		case KTORN:
			if f.N < len(data) {
				data = data[:f.N]
			}
		case KEMPTY:
			data = data[:0]
		case KFLIP:
			if len(data) > 0 {
				b := byte(f.B)
				if b == 0 {
					b = 1
				}
				data[f.N%len(data)] ^= b
			}
		case KMUTATE:
			data = append([]byte{}, f.Data...)
		}
	}
	ev.N = len(data)
	ev.Digest = digest(data)
	return data, nil
}

func (w *World) writeFile(name string, data []byte, perm fs.FileMode) error {
	p := w.resolve(name)
	// open(O_WRONLY|O_CREATE|O_TRUNC)
	seq, f := w.begin(OpWOpen, p)
	ev := &TraceEv{Seq: seq, Op: OpWOpen, Path: p}
	if f != nil {
		ev.Fault = f.Kind
		e := errnoByKind[f.Kind]
		ev.Res = errnoName(e)
		w.log(ev)
		return pathErr("open", name, e)
	}
	parent, e := w.lookup(filepath.Dir(p))
	if e == 0 && !parent.dir {
		e = syscall.ENOTDIR
	}
	var n *node
	if e == 0 {
		var e2 syscall.Errno
		n, e2 = w.lookup(p)
		if e2 == 0 && n.dir {
			e = syscall.EISDIR
		} else if e2 == syscall.ENOTDIR {
			e = e2
		}
	}
	ev.Res = errnoName(e)
	if e != 0 {
		w.log(ev)
		return pathErr("open", name, e)
	}
	if n == nil {
		n = &node{mode: perm &^ 0o022}
		w.fs[p] = n
	}
	n.data = nil // O_TRUNC
	n.mt = w.Epoch + int64(w.IOSeq)
	ev.Data = Bytes{}
	w.log(ev)

	// write
	seq, f = w.begin(OpWData, p)
	ev = &TraceEv{Seq: seq, Op: OpWData, Path: p}
	if f != nil {
		ev.Fault = f.Kind
		switch f.Kind {
		case KSHORT:
			k := f.N
			if k > len(data) {
				k = len(data)
			}
			if n2, e2 := w.lookup(p); e2 == 0 && !n2.dir {
				n2.data = append([]byte(nil), data[:k]...)
			}
			ev.N = k
			ev.Res = KENOSPC
			ev.Data = append(Bytes{}, data[:k]...)
			ev.Digest = digest(data[:k])
			w.log(ev)
			return pathErr("write", name, syscall.ENOSPC)
		default:
			e := errnoByKind[f.Kind]
			ev.Res = errnoName(e)
			w.log(ev)
			return pathErr("write", name, e)
		}
	}
	// the file may have been removed by a world event meanwhile: the open
	// descriptor would still be writable; we write to the node we hold.
	n.data = append([]byte(nil), data...)
	n.mt = w.Epoch + int64(w.IOSeq)
	ev.N = len(data)
	ev.Res = "ok"
	ev.Digest = digest(data)
	ev.Data = append(Bytes{}, data...)
	w.log(ev)

	// close
	seq, f = w.begin(OpWClose, p)
	ev = &TraceEv{Seq: seq, Op: OpWClose, Path: p, Res: "ok"}
	if f != nil {
		ev.Fault = f.Kind
		e := errnoByKind[f.Kind]
		ev.Res = errnoName(e)
		w.log(ev)
		return pathErr("close", name, e)
	}
	w.log(ev)
	return nil
}

func (w *World) simple(op, name string) (string, *TraceEv, error) {
	p := w.resolve(name)
	if op == OpRename || op == OpRemove {
		p = w.resolveNoFollow(name)
	}
	seq, f := w.begin(op, p)
	ev := &TraceEv{Seq: seq, Op: op, Path: p}
	if f != nil {
		ev.Fault = f.Kind
		e := errnoByKind[f.Kind]
		ev.Res = errnoName(e)
		return p, ev, pathErr(op, name, e)
	}
	return p, ev, nil
}

func (w *World) rename(oldname, newname string) error {
	p, ev, err := w.simple(OpRename, oldname)
	defer w.log(ev)
	if err != nil {
		return &os.LinkError{Op: "rename", Old: oldname, New: newname, Err: err.(*fs.PathError).Err}
	}
	q := w.resolveNoFollow(newname)
	n, e := w.lookup(p)
	if e == 0 && w.deviceOf(p) != w.deviceOf(q) {
		e = syscall.EXDEV
	}
	if e == 0 {
		parent, e2 := w.lookup(filepath.Dir(q))
		if e2 != 0 {
			e = e2
		} else if !parent.dir {
			e = syscall.ENOTDIR
		} else if t, e3 := w.lookup(q); e3 == 0 {
			if t.dir {
				e = syscall.EEXIST // Go's os.Rename refuses every rename onto an existing directory
			} else if !t.dir && n.dir {
				e = syscall.ENOTDIR
			}
		}
	}
	ev.Res = errnoName(e)
	if e != 0 {
		return &os.LinkError{Op: "rename", Old: oldname, New: newname, Err: e}
	}
	if p != q {
		if !n.dir {
			ev.Data = append(Bytes{}, n.data...)
		}
		delete(w.fs, q)
		w.Move(p, q)
	}
	ev.Digest = q
	return nil
}

func (w *World) remove(name string, all bool) error {
	p, ev, err := w.simple(OpRemove, name)
	defer w.log(ev)
	if err != nil {
		return err
	}
	n, e := w.lookup(p)
	if e == 0 && n.dir && !all {
		for _, k := range w.sortedPaths() {
			if strings.HasPrefix(k, p+"/") {
				e = syscall.ENOTEMPTY
			}
		}
	}
	if all && e == syscall.ENOENT {
		ev.Res = "ok"
		return nil
	}
	ev.Res = errnoName(e)
	if e != 0 {
		return pathErr("remove", name, e)
	}
	w.Del(p)
	return nil
}

func (w *World) mkdir(name string, all bool) error {
	_, ev, err := w.simple(OpMkdir, name)
	defer w.log(ev)
	if err != nil {
		return err
	}
	var e syscall.Errno
	if all {
		e = w.mkdirAllRaw(name)
	} else {
		e = w.mkdirRaw(name)
	}
	ev.Res = errnoName(e)
	if e != 0 {
		return pathErr("mkdir", name, e)
	}
	return nil
}

// mkdirRaw is mkdir(2) on the kernel-walked path.
func (w *World) mkdirRaw(name string) syscall.Errno {
	p := w.resolveNoFollow(name)
	if _, e := w.lookup(p); e == 0 {
		return syscall.EEXIST
	} else if e != syscall.ENOENT {
		return e
	}
	parent, e := w.lookup(filepath.Dir(p))
	if e != 0 {
		return e
	}
	if !parent.dir {
		return syscall.ENOTDIR
	}
	w.fs[p] = &node{dir: true, mode: fs.ModeDir | 0o755}
	return 0
}

// mkdirAllRaw follows the algorithm of os.MkdirAll (textual parents).
func (w *World) mkdirAllRaw(name string) syscall.Errno {
	if n, e := w.lookup(w.resolve(name)); e == 0 {
		if n.dir {
			return 0
		}
		return syscall.ENOTDIR
	}
	i := len(name)
	for i > 0 && name[i-1] == '/' {
		i--
	}
	j := i
	for j > 0 && name[j-1] != '/' {
		j--
	}
	if j > 1 {
		if e := w.mkdirAllRaw(name[:j-1]); e != 0 {
			return e
		}
	}
	e := w.mkdirRaw(name)
	if e != 0 {
		if n, e2 := w.lookup(w.resolve(name)); e2 == 0 && n.dir {
			return 0
		}
		return e
	}
	return 0
}

type dirEntry struct{ fi fileInfo }

func (d dirEntry) Name() string               { return d.fi.name }
func (d dirEntry) IsDir() bool                { return d.fi.IsDir() }
func (d dirEntry) Type() fs.FileMode          { return d.fi.mode.Type() }
func (d dirEntry) Info() (fs.FileInfo, error) { return d.fi, nil }

func (w *World) readDir(name string) ([]fs.DirEntry, error) {
	p, ev, err := w.simple(OpReadDir, name)
	defer w.log(ev)
	if err != nil {
		return nil, err
	}
	n, e := w.lookup(p)
	if e == 0 && !n.dir {
		e = syscall.ENOTDIR
	}
	ev.Res = errnoName(e)
	if e != 0 {
		return nil, pathErr("open", name, e)
	}
	out := []fs.DirEntry{}
	pre := p + "/"
	if p == "/" {
		pre = "/"
	}
	for _, k := range w.sortedPaths() {
		if k != "/" && strings.HasPrefix(k, pre) && !strings.Contains(k[len(pre):], "/") {
			c := w.fs[k]
			out = append(out, dirEntry{fileInfo{name: k[len(pre):], size: int64(len(c.data)), mode: c.mode, mt: time.Unix(c.mt, 0).UTC(), id: c}})
		}
	}
	ev.N = len(out)
	return out, nil
}

// readDirRaw is the order a directory handle reports (File.ReadDir, Readdir,
// Readdirnames): unlike os.ReadDir it is NOT sorted; the real order depends on
// the file system, so the simulator decides it like a map iteration order.
func (w *World) readDirRaw(name string) ([]fs.DirEntry, error) {
	out, err := w.readDir(name)
	if err != nil || len(out) < 2 {
		return out, err
	}
	switch w.MapMode {
	case "reversed":
		for i, j := 0, len(out)-1; i < j; i, j = i+1, j-1 {
			out[i], out[j] = out[j], out[i]
		}
	case "rotate":
		r := int((w.MapSeed + uint64(w.IOSeq)) % uint64(len(out)))
		out = append(out[r:], out[:r]...)
	case "shuffle":
		s := w.MapSeed ^ (uint64(w.IOSeq) * 0x9E3779B97F4A7C15)
		for i := len(out) - 1; i > 0; i-- {
			s = splitmix(s)
			j := int(s % uint64(i+1))
			out[i], out[j] = out[j], out[i]
		}
	}
	w.DirOrders++
	return out, nil
}

#!/bin/bash
# setup_cmd: build the orchestrator and the instrumenter from files on disk only (stdlib, offline).
set -euo pipefail
cd "$(dirname "$0")"
export GOFLAGS=-mod=mod GOPROXY=off GOSUMDB=off GOTOOLCHAIN=local CGO_ENABLED=0
mkdir -p bin evidence replays
( cd sim && go build -o ../bin/instrument ./cmd/instrument && go build -o ../bin/simctl ./cmd/simctl )
echo "setup: built bin/instrument bin/simctl with $(go version)"

#!/usr/bin/env python3
"""Regenerates the two result tables of DESIGN.md §10 from seeded/INDEX.json and mutants/INDEX.json
(between the markers <!-- SEEDED-TABLE --> / <!-- MUTANT-TABLE --> and their END markers)."""
import json, re
mut = json.load(open('/verif/mutants/INDEX.json'))
sd = json.load(open('/verif/seeded/INDEX.json'))
def clean(s, n): 
    s = s.replace('|', '/').replace('\n', ' ')
    return s[:n] + ('…' if len(s) > n else '')
srows = ["| id | property | change | needs | result |", "|---|---|---|---|---|"]
for e in sd:
    m = json.load(open('/verif/seeded/%s/meta.json' % e['name']))
    st = 'caught: `%s`' % clean(e.get('class') or '', 90) if e.get('detected') else 'MISSED'
    if e.get('note'): st = e['note']
    srows.append("| `%s` | %s | %s | %s | %s |" % (e['name'], e['property'], clean(m['summary'], 230), clean(m['needs'], 200), st))
mrows = ["| mutant | property | what it does | passes the 165 tests | result (first violation class) |", "|---|---|---|---|---|"]
for e in mut:
    sp = 'yes' if e.get('suite_passes') else ('**no**' if e.get('suite_passes') is False else '?')
    st = 'caught: `%s`' % clean(e.get('class') or '', 90) if e.get('detected') else ('MISSED' if e.get('detected') is False else 'not run')
    if e['property'] == 'BENIGN':
        st = 'all four checks silent' if e.get('detected') else ('**' + clean(e.get('class') or 'not run', 120) + '**')
    mrows.append("| `%s` | %s | %s | %s | %s |" % (e['name'], e['property'], e['description'], sp, st))
s = open('/verif/DESIGN.md').read()
for tag, rows in (('SEEDED-TABLE', srows), ('MUTANT-TABLE', mrows)):
    s = re.sub(r'<!-- %s -->.*?<!-- END-%s -->' % (tag, tag), lambda _: '<!-- %s -->\n%s\n<!-- END-%s -->' % (tag, "\n".join(rows), tag), s, flags=re.S)
open('/verif/DESIGN.md', 'w').write(s)
print(len(sd), 'seeded,', len(mut), 'mutants')

# wave_prompt.py <name> <Cxx> "<focus>": prints the task text for one sub-agent of a seeded-breakage wave.
# Needs /tmp/wave/prop_<Cxx>.txt (property text) and /tmp/wave/prev_<Cxx>.txt (one-line summaries of earlier changes, from seeded/*/meta.json).
import sys
name,P,focus=sys.argv[1],sys.argv[2],sys.argv[3]
prop=open(f'/tmp/wave/prop_{P}.txt').read()
prev=open(f'/tmp/wave/prev_{P}.txt').read()
print(f"""You are helping to evaluate a verification setup for the open-source project monstermichl/TypeShell (a small Go-like language with lexer, type-checking parser and transpiler that emits Bash or Windows Batch scripts; `tsh.go` is the command line tool). Your job is to act as a realistic "bug author": produce ONE change to TypeShell that BREAKS the property below, while the code still compiles and the existing test suite still passes.

PROPERTY
{prop}
YOUR WORKSPACE
- A private git worktree of the repository: /tmp/wt/{name}  (work ONLY there; never touch /repo or /verif and do not read anything under /verif).
- A directory for your deliverables: /tmp/demo_{name}
- In every shell call first run: export GOFLAGS=-mod=mod GOPROXY=off GOSUMDB=off GOTOOLCHAIN=local   (there is no network; Go 1.23 is installed; /bin/bash is available; cmd.exe is not).
- Do NOT use `git stash` (the stash is shared between worktrees). To compare with/without your change use `git diff > file`, `git checkout -- .`, `git apply file`.
- The existing suite: cd /tmp/wt/{name} && go test -mod=mod -vet=off -count=1 -timeout 25m ./...   (165 tests, must still pass with your change, unedited).

WHAT KIND OF CHANGE
- It must look like something a maintainer could plausibly commit: a refactoring, an optimisation, a feature addition, a "fix" of something else, a clean-up - not sabotage, no dead `if input == "magic"` special cases.
- It must need something SPECIFIC to manifest (a narrow trigger: a conjunction of two or three conditions, a particular multi-step sequence, an unusual but legal input, a particular fault or file-system state at a particular point, or two cooperating sites that each look fine alone). Ordinary use and the existing tests must not expose it. Think about what a tester who generates random programs, random operation sequences, random option vectors and injects I/O errors would most likely NOT try.
- The violation must lie INSIDE the property's quantifier as stated above (do not rely on behaviour the property does not speak about).
- Focus for you: {focus}
- It must use a DIFFERENT mechanism from these changes that others already produced for this property:
{prev}

DELIVERABLES (all in /tmp/demo_{name})
1. patch.diff  = exactly `git diff` of your worktree (leave the change applied in the worktree, uncommitted).
2. A demonstration (a shell script and/or a small Go program living in /tmp/demo_{name}, it may build things from /tmp/wt/{name}) that exits NON-ZERO with your change applied and exits 0 without it. It must be runnable by one command from within /tmp/demo_{name}, deterministic (or loop until it shows), finish within two minutes and write only below /tmp/demo_{name}.
3. meta.json with the keys: "property" ("{P}"), "summary" (what the change does and why it breaks the property, 3-6 sentences), "needs" (exactly what is needed for the violation to manifest), "files_changed" (list), "demo_cmd" (the one command, e.g. "bash /tmp/demo_{name}/run_demo.sh"), "suite_passes" (true only if you ran the full suite with the change and it passed).
Verify everything yourself before you finish: build, full suite with the change, demo with the change (non-zero), demo without (zero), then re-apply the change. Your final message: three lines - what the change is, what triggers it, and the results of your four verifications.""")

#!/usr/bin/env python3
"""seeded_run.py <name> [budget]: registers seeded/<name> in seeded/INDEX.json (if new), runs the owning check
against a scratch copy with the patch applied (run.sh selftest sensitivity --seeded --only <name>) and records the result."""
import json, subprocess, sys, re
name = sys.argv[1]; budget = sys.argv[2] if len(sys.argv) > 2 else '60'
ip = '/verif/seeded/INDEX.json'
idx = json.load(open(ip))
e = next((x for x in idx if x['name'] == name), None)
if e is None:
    m = json.load(open('/verif/seeded/%s/meta.json' % name))
    import os
    wt = '/tmp/wt/' + name
    base = subprocess.check_output(['git', '-C', wt if os.path.isdir(wt) else '/repo', 'rev-parse', '--short', 'HEAD'], text=True).strip()
    e = {'name': name, 'property': m['property'], 'description': m['summary'][:230], 'base': base}
    idx.append(e)
    idx.sort(key=lambda x: x['name'])
    json.dump(idx, open(ip, 'w'), indent=1)
out = subprocess.run(['/verif/run.sh', 'selftest', 'sensitivity', '--seeded', '--only', name, '--budget', budget], capture_output=True, text=True).stdout
line = next((l for l in out.splitlines() if l.startswith(name + ' ')), '')
print(line or out[-800:])
m = re.match(r'(\S+)\s+(C\d\d)\s+(caught|MISSED|MACHINERY\S*)\s+([\d.]+)s\s*(?:suite_passes=\S+)?\s*(.*)', line)
if m:
    idx = json.load(open(ip))
    e = next(x for x in idx if x['name'] == name)
    e['detected'] = m.group(3) == 'caught'; e['detect_s'] = float(m.group(4)); e['class'] = m.group(5).strip()
    json.dump(idx, open(ip, 'w'), indent=1)
